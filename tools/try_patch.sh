#!/bin/bash
# tools/try_patch.sh <patch.diff> <ID> [<ID> ...] [-- extra check args]
# Applies a patch to a scratch worktree of /repo (HEAD), runs the given checks against it (PV_REPO, no evidence written)
# and removes the worktree.  With TRY_IN_REPO=1 the patch is applied to /repo itself instead and undone afterwards
# (git -C /repo apply ... ; git -C /repo checkout -- .), which is what the checks see when they are used for real.
patch="$(realpath "$1")"; shift
ids=(); extra=()
while [ $# -gt 0 ]; do if [ "$1" == "--" ]; then shift; extra=("$@"); break; fi; ids+=("$1"); shift; done
if [ -n "$TRY_IN_REPO" ]; then
  cd /repo || exit 2
  if [ -n "$(git status --porcelain --untracked-files=no)" ]; then echo "/repo is dirty, refusing"; exit 2; fi
  git apply "$patch" || { echo "patch does not apply"; exit 2; }
  trap 'git -C /repo checkout -- . ' EXIT
  export PV_REPO=/repo
else
  wt=$(mktemp -d /tmp/trypatch_XXXXXX); rmdir "$wt"
  git -C /repo worktree add -q "$wt" HEAD || exit 2
  trap 'git -C /repo worktree remove --force "$wt" >/dev/null 2>&1' EXIT
  git -C "$wt" apply "$patch" || { echo "patch does not apply"; exit 2; }
  export PV_REPO="$wt"
fi
for id in "${ids[@]}"; do
  out=$(cd /verif && ./check "$id" --no-evidence "${extra[@]}" 2>&1); rc=$?
  echo "== $id rc=$rc $(echo "$out" | grep -c '^VIOLATION') VIOLATION lines"
  echo "$out" | grep -E "^  clause|^ERROR|^NONDET" | head -4 | cut -c1-330
  echo "$out" | tail -1 | cut -c1-200
done
