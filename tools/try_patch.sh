#!/bin/bash
# tools/try_patch.sh <patch.diff> <ID> [<ID> ...] [-- extra check args]
# Applies a patch to /repo, runs the given checks (no evidence written), and always restores /repo.
patch="$(realpath "$1")"; shift
ids=(); extra=()
while [ $# -gt 0 ]; do if [ "$1" == "--" ]; then shift; extra=("$@"); break; fi; ids+=("$1"); shift; done
cd /repo || exit 2
if [ -n "$(git status --porcelain --untracked-files=no)" ]; then echo "/repo is dirty, refusing"; exit 2; fi
git apply "$patch" || { echo "patch does not apply"; exit 2; }
trap 'git -C /repo checkout -- . ' EXIT
for id in "${ids[@]}"; do
  out=$(cd /verif && ./check "$id" --no-evidence "${extra[@]}" 2>&1); rc=$?
  echo "== $id rc=$rc $(echo "$out" | grep -c '^VIOLATION') VIOLATION lines"
  echo "$out" | grep -E "^  clause|^ERROR|^NONDET" | head -4 | cut -c1-330
  echo "$out" | tail -1 | cut -c1-200
done
