#!/bin/bash
# tools/run_refactorings.sh <refactoring dir>... : every check must stay silent on a behaviour-preserving refactoring.
for d in "$@"; do
  echo "#### $d"
  /verif/tools/try_patch.sh "$d/patch.diff" C01 C02 C03 C04 C05 C06 C07 C08 C09 C10 C11 C12 C13 C14 C15 C16 C17 C18 C19 C20 | grep -E "^==|clause|ERROR|NONDET|does not apply"
done
