#!/bin/bash
# tools/run_seeds.sh [seed dir ...]: for every seeded defect run the checks named in its meta.json (detected_by_quick)
# against a scratch worktree with the patch applied; prints one line per seed: DETECTED / MISSED / DOES-NOT-APPLY.
cd /verif
dirs=("$@"); [ ${#dirs[@]} -eq 0 ] && dirs=(seeded/*/)
for d in "${dirs[@]}"; do
  d=${d%/}; name=$(basename "$d")
  checks=$(python3 -c "import json,sys; print(' '.join(json.load(open('$d/meta.json'))['detected_by_quick']))" 2>/dev/null)
  [ -z "$checks" ] && { echo "$name: no meta"; continue; }
  out=$(timeout 1800 tools/try_patch.sh "$d/patch.diff" $checks 2>&1)
  if echo "$out" | grep -q "does not apply"; then echo "$name: DOES-NOT-APPLY"; continue; fi
  hit=$(echo "$out" | grep -E "^== " | awk '$3!="rc=0"{print $2}' | tr '\n' ' ')
  if [ -n "$hit" ]; then echo "$name: DETECTED by $hit"; else echo "$name: MISSED (ran $checks)"; fi
done
