#!/bin/bash
# tools/run_seeds.sh [seed dir ...]: for every seeded defect run the checks named in its meta.json (detected_by_quick)
# against a scratch worktree with the patch applied; prints one line per seed: DETECTED / MISSED / DOES-NOT-APPLY.
# SEED_JOBS (default 4) seeds run at the same time, each check with VERIF_WORKERS (default 4) worker processes.
cd /verif
one() {
  d=${1%/}; name=$(basename "$d")
  checks=$(python3 -c "import json,sys; print(' '.join(json.load(open('$d/meta.json'))['detected_by_quick']))" 2>/dev/null)
  [ -z "$checks" ] && { echo "$name: no meta"; return; }
  out=$(timeout 1800 tools/try_patch.sh "$d/patch.diff" $checks 2>&1)
  if echo "$out" | grep -q "does not apply"; then echo "$name: DOES-NOT-APPLY"; return; fi
  hit=$(echo "$out" | grep -E "^== " | awk '$3!="rc=0"{print $2}' | tr '\n' ' ')
  if [ -n "$hit" ]; then echo "$name: DETECTED by $hit"; else echo "$name: MISSED (ran $checks)"; fi
}
export -f one
export VERIF_WORKERS=${VERIF_WORKERS:-4}
dirs=("$@"); [ ${#dirs[@]} -eq 0 ] && dirs=(seeded/*/)
printf '%s\n' "${dirs[@]}" | xargs -P "${SEED_JOBS:-4}" -I{} bash -c 'one {}'
