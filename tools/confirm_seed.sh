#!/bin/bash
# tools/confirm_seed.sh <seed dir>: in a scratch worktree of /repo confirm that (1) the demo passes without the patch,
# (2) the patch applies, (3) the repository test-suite still passes with it, (4) the demo fails with it.
# Prints one summary line; removes the worktree afterwards.
d="$(realpath "$1")"; name=$(basename "$d")
wt=$(mktemp -d /tmp/confirm_XXXX); rmdir "$wt"
git -C /repo worktree add -q "$wt" HEAD || exit 2
trap 'git -C /repo worktree remove --force "$wt" >/dev/null 2>&1' EXIT
cd "$wt"
PYTHONPATH="$wt/src" timeout 120 /venv/bin/python "$d/demo.py" >/dev/null 2>&1; before=$?
git apply "$d/patch.diff" || { echo "$name: PATCH DOES NOT APPLY"; exit 1; }
tests=$(PYTHONPATH="$wt/src" timeout 900 /venv/bin/python -m pytest -q -p no:cacheprovider --timeout=120 tests --ignore=tests/rmq 2>&1 | tail -1)
PYTHONPATH="$wt/src" timeout 120 /venv/bin/python "$d/demo.py" >/dev/null 2>&1; after=$?
echo "$name: demo_without_patch_rc=$before demo_with_patch_rc=$after tests_with_patch='$tests'"
