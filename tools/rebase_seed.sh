#!/bin/bash
# tools/rebase_seed.sh <seed dir>...: re-create a seeded patch that no longer applies on top of /repo's HEAD with a
# three-way merge (the patch names the blobs it was made against, which are in the history).  The old patch is kept as
# patch.orig.diff; conflicts are reported and left for hand work.
for d in "$@"; do
  d=$(realpath "${d%/}"); name=$(basename "$d")
  wt=$(mktemp -d /tmp/rebase_XXXX); rmdir "$wt"
  git -C /repo worktree add -q "$wt" HEAD || exit 2
  if git -C "$wt" apply --check "$d/patch.diff" 2>/dev/null; then echo "$name: applies as it is"; git -C /repo worktree remove --force "$wt"; continue; fi
  if git -C "$wt" apply --3way "$d/patch.diff" >/dev/null 2>&1 && ! git -C "$wt" diff --name-only --diff-filter=U | grep -q .; then
    [ -f "$d/patch.orig.diff" ] || cp "$d/patch.diff" "$d/patch.orig.diff"
    git -C "$wt" diff HEAD -- src > "$d/patch.diff"
    echo "$name: rebased ($(grep -c '^[-+][^-+]' "$d/patch.diff") changed lines)"
  else
    echo "$name: CONFLICT"
  fi
  git -C /repo worktree remove --force "$wt"
done
