#!/bin/bash
# tools/run_alternatives.sh [dir ...]: the variants under alternatives/ differ from the library in ways the statements leave
# open; the checks named in their meta.json must stay silent on them (expect=silent).  A few are flagged on purpose
# (expect=flagged, with the reason in meta.json).  ALT_JOBS (default 4) at a time.
cd /verif
one() {
  d=${1%/}; name=$(basename "$d")
  checks=$(python3 -c "import json; print(' '.join(json.load(open('$d/meta.json'))['checks']))")
  expect=$(python3 -c "import json; print(json.load(open('$d/meta.json'))['expect'])")
  out=$(timeout 3000 tools/try_patch.sh "$d/patch.diff" $checks 2>&1)
  if echo "$out" | grep -q "does not apply"; then echo "$name: DOES-NOT-APPLY"; return; fi
  hit=$(echo "$out" | grep -E "^== " | awk '$3!="rc=0"{print $2}' | tr '\n' ' ')
  if [ -z "$hit" ]; then r=silent; else r=flagged; fi
  if [ "$r" == "$expect" ]; then echo "$name: as expected ($r $hit)"; else echo "$name: UNEXPECTED $r by $hit (expected $expect)"; fi
}
export -f one
export VERIF_WORKERS=${VERIF_WORKERS:-4}
dirs=("$@"); [ ${#dirs[@]} -eq 0 ] && dirs=(alternatives/*/)
printf '%s\n' "${dirs[@]}" | xargs -P "${ALT_JOBS:-4}" -I{} bash -c 'one {}'
