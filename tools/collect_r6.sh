#!/bin/bash
# tools/collect_r6.sh <Cxx> [check ids...]: copies the two seeds an agent left in /tmp/r6/wt_<Cxx>/seed/{1,2} to
# seeded/R6-<Cxx>-{1,2}, confirms each (tools/confirm_seed.sh) and runs the property's own quick check (plus any further
# check ids given) against it.  Prints one block per seed.
p=$1; shift; more=("$@")
cd /verif
for i in 1 2; do
  src=/tmp/r6/wt_$p/seed/$i; dst=seeded/R6-$p-$i
  [ -f $src/patch.diff ] || { echo "R6-$p-$i: no patch"; continue; }
  mkdir -p $dst; cp $src/patch.diff $src/demo.py $dst/ 2>/dev/null; cp $src/notes.md $dst/ 2>/dev/null
  echo "## $(tools/confirm_seed.sh $dst 2>&1 | tail -1)"
  tools/try_patch.sh $dst/patch.diff $p "${more[@]}" 2>&1 | grep -E "^== |clause" | cut -c1-260
done
