# -*- coding: utf-8 -*-
"""WorkChains that hand futures and child processes to the context (used by C10 and by part (ii) of C06).

A unit is ``(spec, listener_script)`` with ``spec = (items, how, reassign[, shape])``:
    items     tuple of (kind, outcome): kind 'same' (the previous item again, under another key), 'gate' (a loop future completed by the environment), 'done' (a loop future
              that is already resolved when it is handed over) or 'child' (a process launched from the step, which waits
              for its own gate); outcome 'ok' | 'exc' | 'kill' (children only) | 'cancel' (a future that gets cancelled; a
              child that is killed by cancelling its future)
    shape     where the registering step sits in the outline: 'flat' (s1, s2, s3) | 'while' (while_(once)(s1), s2, s3) |
              'if' (if_(yes)(s1), s2, s3) | 'while-if' (while_(once)(if_(yes)(s1)), s2, s3)
    how       'return' (return ToContext(...)) | 'call' (self.to_context(...)) | 'both' (first item by call, rest returned)
    reassign  whether the step after the barrier assigns another value to the first key
"""
from __future__ import annotations

import asyncio
import sys
from typing import Any, Callable, Dict, List, Optional, Tuple

import plumpy
from plumpy import workchains as wc

from . import ctl, programs
from .ctl import ProcessState
from .explore import digest

CHILD_GATE = 100


def kname(i: int) -> str:
    """The context key of the i-th item; the second one is called ``self`` (a legal key like any other)."""
    return 'self' if i == 1 else f'k{i}'


class ItemError(Exception):
    """Failure of an awaited item."""


class Child(plumpy.Process):
    @classmethod
    def define(cls, spec: Any) -> None:
        super().define(spec)
        spec.input('i', valid_type=int)
        spec.input('fail', default=False)
        spec.output('res', required=False)

    def __init__(self, *args: Any, **kwargs: Any) -> None:
        super().__init__(*args, **kwargs)
        self._trace: List[Any] = []
        if programs.ENV is not None:
            programs.ENV.attach(self)

    async def run(self) -> Any:
        i = self.inputs.i
        await programs.ENV.gate(self, CHILD_GATE + i)
        if self.inputs.fail:
            exc = ItemError(f'child-{i}')
            programs.ENV.item_errors[i] = exc
            raise exc
        self.out('res', f'c{i}')
        return None


_CLASSES: Dict[Any, type] = {}


def make_chain(spec: tuple) -> type:
    if spec in _CLASSES:
        return _CLASSES[spec]
    items, how, reassign = spec[:3]
    shape = spec[3] if len(spec) > 3 else 'flat'

    def s1(self: Any) -> Any:
        env = programs.ENV
        env.record(self, 's1', (), {}, 'enter')
        handles: Dict[str, Any] = {}
        for i, (kind, outcome) in enumerate(items):
            if kind == 'gate':
                handles[kname(i)] = env.gate(self, i)
            elif kind == 'same':
                handles[kname(i)] = handles[kname(i - 1)]  # the previous item once more, under a key of its own
            elif kind == 'done':
                fut = env.gate(self, i)
                env.complete_now(i)
                handles[kname(i)] = fut
            else:
                child = self.launch(Child, inputs={'i': i, 'fail': outcome == 'exc'}, pid=f'child{i}')
                env.children[i] = child
                handles[kname(i)] = child
        env.awaited = {k: (h.future() if isinstance(h, plumpy.Process) else h) for k, h in handles.items()}
        if how == 'return':
            return wc.ToContext(**handles)
        if how == 'call':
            self.to_context(**handles)
            return None
        first = next(iter(handles))
        self.to_context(**{first: handles.pop(first)})
        return wc.ToContext(**handles)

    def s2(self: Any) -> Any:
        env = programs.ENV
        env.record(self, 's2', (), {}, 'enter')
        env.at_s2 = {k: (f.done(), self.ctx.get(k, '<missing>')) for k, f in env.awaited.items()}
        if reassign:
            self.ctx.k0 = 'reassigned'
        return None

    def s3(self: Any) -> Any:
        env = programs.ENV
        env.record(self, 's3', (), {}, 'enter')
        env.at_s3 = {k: self.ctx.get(k, '<missing>') for k in env.awaited}
        return None

    def once(self: Any) -> bool:
        first = not self.ctx.get('looped', False)
        self.ctx.looped = True
        return first

    def yes(self: Any) -> bool:
        return True

    def define(cls: Any, spec_: Any) -> None:
        super(klass, cls).define(spec_)
        first = {'flat': cls.s1, 'while': wc.while_(cls.once)(cls.s1), 'if': wc.if_(cls.yes)(cls.s1),
                 'while-if': wc.while_(cls.once)(wc.if_(cls.yes)(cls.s1))}[shape]
        spec_.outline(first, cls.s2, cls.s3)

    def __init__(self: Any, *args: Any, **kwargs: Any) -> None:
        plumpy.WorkChain.__init__(self, *args, **kwargs)
        self._trace = []
        if programs.ENV is not None:
            programs.ENV.attach(self)

    name = f'Barrier_{digest(spec)}'
    klass = type(name, (plumpy.WorkChain,), {'s1': s1, 's2': s2, 's3': s3, 'once': once, 'yes': yes, 'define': classmethod(define),
                                             '__init__': __init__, '__module__': __name__})
    setattr(sys.modules[__name__], name, klass)
    _CLASSES[spec] = klass
    return klass


def cls_for(unit: Any) -> type:
    return make_chain(unit[0])


class WcWorld(ctl.World):
    """World whose gates have a predetermined outcome and whose children can be killed by the environment."""

    def __init__(self, chooser: Any, cfg: ctl.Config, unit: Any, oracle: Any) -> None:
        super().__init__(chooser, cfg, unit, oracle)
        self.program = ()
        self.items = unit[0][0]
        self.children: Dict[int, Any] = {}
        self.awaited: Dict[str, Any] = {}
        self.item_errors: Dict[int, BaseException] = {}
        self.at_s2: Optional[Dict[str, Any]] = None
        self.at_s3: Optional[Dict[str, Any]] = None
        self.completion_order: List[Any] = []
        self.kill_requested: set = set()
        # a plain Process is instantiated before the work chain class is first used (the order in which classes are
        # first instantiated must not matter)
        warm = plumpy.Process(pid='warm-up', loop=self.loop)
        warm.close()

    def record(self, proc: Any, name: str, args: tuple, kwargs: dict, phase: str) -> None:
        rec = (name, tuple(args), tuple(sorted(kwargs.items())), phase, proc.paused, proc.status,
               plumpy.Process.current() is proc, proc.state)
        self.trace.append(rec)

    def outcome_of_gate(self, g: int) -> str:
        if g >= CHILD_GATE:
            return 'ok'  # the child's own gate; whether the child then fails is the child's business
        return self.items[g][1]

    def killable(self) -> List[int]:
        return [i for i, c in sorted(self.children.items())
                if self.items[i][1] in ('kill', 'cancel') and not c.has_terminated() and i not in self.kill_requested]

    def pending_gates(self) -> List[int]:
        out = []
        for g in self.gate_order:
            if self.gates[g].done():
                continue
            if g >= CHILD_GATE and self.items[g - CHILD_GATE][1] in ('kill', 'cancel') and (g - CHILD_GATE) not in self.kill_requested:
                continue  # this child is going to be killed first; its step is let go afterwards
            out.append(g)
        return out

    def _gate_thunk(self, g: int) -> Callable[[], None]:
        def run() -> None:
            self.completion_order.append(g)
            if self.outcome_of_gate(g) == 'exc':
                exc = ItemError(f'item-{g}')
                self.item_errors[g] = exc
                self.gates[g].set_exception(exc)
            elif self.outcome_of_gate(g) == 'cancel':
                self.gates[g].cancel()
            else:
                self.gates[g].set_result(f'g{g}')

        return run

    def complete_now(self, g: int) -> None:
        self._gate_thunk(g)()

    def _kill_thunk(self, i: int) -> Callable[[], None]:
        def run() -> None:
            self.completion_order.append(('kill', i))
            self.kill_requested.add(i)
            if self.items[i][1] == 'cancel':
                self.children[i].future().cancel()  # "cancelling the process's future has the same effect as kill()"
            else:
                self.children[i].kill(f'kill-child-{i}')

        return run

    def _closing_option(self) -> Optional[Tuple[Any, str, Callable[[], None]]]:
        opt = super()._closing_option()
        if opt is not None and opt[0][0] == 'gate':
            return opt
        killable = self.killable()
        if killable:
            return (('killchild', killable[0]), '', self._closing(self._kill_thunk(killable[0])))
        return opt

    def options(self) -> List[Tuple[Any, str, Callable[[], None]]]:
        opts = super().options()
        if opts and self.live() and self.cfg.early_gates:
            default = opts[0][0]
            for i in self.killable():
                if default != ('killchild', i):
                    opts.append((('killchild', i), self.cfg.gate_cost, self._kill_thunk(i)))
        return opts


def expected_values(world: WcWorld) -> Dict[str, Any]:
    out = {}
    for i, (kind, outcome) in enumerate(world.items):
        if kind == 'same':
            out[kname(i)] = out[kname(i - 1)]
        else:
            out[kname(i)] = f'g{i}' if kind in ('gate', 'done') else {'res': f'c{i}'}
    return out
