# -*- coding: utf-8 -*-
"""Known findings (DESIGN.md 2.8).  The file is read only; nothing here ever writes to it.

Line formats::

    finding: property=C04 id=KF-x clause=<clause> match=<json object> :: <what fails>
    fixed: property=C13 <commit> <what failed>

A ``finding`` suppresses a violation only when the property, the clause and *every* key of ``match`` agree with the
violation's features.  ``fixed`` lines suppress nothing.
"""
from __future__ import annotations

import json
import os
import re
from typing import Any, Dict, List, Optional

PATH = os.path.join(os.path.dirname(os.path.dirname(os.path.abspath(__file__))), 'KNOWN_FINDINGS.txt')
_LINE = re.compile(r'^finding:\s+property=(\S+)\s+id=(\S+)\s+clause=(\S+)\s+match=(\{.*?\})\s+::\s+(.*)$')


def load(path: str = PATH) -> List[Dict[str, Any]]:
    out: List[Dict[str, Any]] = []
    if not os.path.exists(path):
        return out
    with open(path) as handle:
        for line in handle:
            line = line.strip()
            m = _LINE.match(line)
            if m:
                out.append({'property': m.group(1), 'id': m.group(2), 'clause': m.group(3),
                            'match': json.loads(m.group(4)), 'what': m.group(5)})
    return out


def _norm(v: Any) -> Any:
    return json.loads(json.dumps(v, default=repr))


def match(finding: Dict[str, Any], prop: str, violation: Dict[str, Any]) -> bool:
    if finding['property'] != prop or finding['clause'] != violation.get('clause'):
        return False
    feats = _norm(violation.get('features', {}))
    for k, v in finding['match'].items():
        if feats.get(k) != v:
            return False
    return True


def classify(prop: str, violation: Dict[str, Any], known: Optional[List[Dict[str, Any]]] = None) -> Optional[Dict[str, Any]]:
    for f in (known if known is not None else load()):
        if match(f, prop, violation):
            return f
    return None
