# -*- coding: utf-8 -*-
"""Generated ``Process`` programs (DESIGN.md 2.3, family F-proc).

A program is plain data::

    program = (step, step, ...)            step = (kind, actions, terminator)
    kind        'S' sync | 'Y1' / 'Y2' async with 1-2 ``await asyncio.sleep(0)`` | 'G' async awaiting an environment gate
    actions     tuple of (where, action): where in {'pre', 'post'} (before the first / after the last await),
                action in {'out', 'status', 'cs_ok', 'cs_raise', 'pause', 'play', 'kill'}
    terminator  'cont' | 'cont_a' | 'wait' | 'wait_d'            (go on with the next step)
                'ret' | 'ret_none' | 'unsucc' | 'stop_t' | 'stop_f' | 'killcmd' | 'raise'   (final)

Classes are created once per descriptor and registered as attributes of this module so that the default object loader
can find them again after a checkpoint.  Everything a step needs is either persisted (``_trace``) or in the descriptor.
The step functions talk to the current execution's world through ``ENV`` (set by the harness for every execution).
"""
from __future__ import annotations

import asyncio
import itertools
import sys
from typing import Any, Dict, Iterator, List, Optional, Tuple

import plumpy
from plumpy import persistence, process_states

from .explore import digest

ENV: Any = None  # the world of the execution that is currently running

NONFINAL = ('cont', 'cont_a', 'wait', 'wait_d')
FINAL = ('ret', 'ret_none', 'unsucc', 'stop_t', 'stop_f', 'killcmd', 'killcmd0', 'raise', 'raise0')

CONT_ARGS = (1, 'x')
CONT_KWARGS = {'k': 2}
WAIT_MSG = 'wait-msg'
WAIT_DATA = {'d': 1}
RET_VALUE = 5
UNSUCC_CODE = 3
STOP_VALUE = 'stopped'
KILLCMD_TEXT = 'killed-by-command'
OUT_VALUE = 11
STATUS_TEXT = 'user-status'
SELF_KILL_TEXT = 'self-kill'
SELF_PAUSE_TEXT = 'self-pause'


class StepError(Exception):
    """Raised by a generated step ('raise' terminator)."""


class EmptyStepError(StepError):
    """An exception object that is falsy (it has a length, as exceptions carrying a collection of errors do)."""

    def __len__(self) -> int:
        return 0


class CallbackError(Exception):
    """Raised by a generated scheduled callback ('cs_raise' action)."""


def _do_action(self: Any, idx: int, action: str) -> None:
    if action == 'out':
        self.out(f'o{idx}', OUT_VALUE)
    elif action == 'status':
        self.set_status(f'{STATUS_TEXT}-{idx}')
        if ENV is not None:
            ENV.last_user_status = f'{STATUS_TEXT}-{idx}'
    elif action == 'cs_ok':
        self.call_soon(_ok_callback, self, idx)
    elif action == 'cs_raise':
        self.call_soon(_raising_callback, self, idx)
    elif action == 'pause':
        ENV.logged_call(self, 'pause', (SELF_PAUSE_TEXT,), origin=f'step:{idx}')
    elif action == 'play':
        ENV.logged_call(self, 'play', (), origin=f'step:{idx}')
    elif action == 'kill':
        ENV.logged_call(self, 'kill', (SELF_KILL_TEXT,), origin=f'step:{idx}')
    else:  # pragma: no cover
        raise AssertionError(action)


def _ok_callback(proc: Any, idx: int) -> None:
    ENV.record(proc, f'cb{idx}', (), {}, 'callback')


def _raising_callback(proc: Any, idx: int) -> None:
    ENV.record(proc, f'cbx{idx}', (), {}, 'callback')
    exc = CallbackError(f'callback-{idx}')
    ENV.raised.append(exc)
    raise exc


def _terminate(self: Any, idx: int, term: Any, last: bool) -> Any:
    nxt = None if last else getattr(self, f's{idx + 1}')
    if isinstance(term, tuple):
        # parameterised terminators (used by C13): ('cont', args, kwargs) ('wait', msg, data) ('ret', v)
        # ('unsucc', code) ('stop', v, successful) ('killcmd', text|None) ('raise',)
        kind = term[0]
        if kind == 'cont':
            return process_states.Continue(nxt, *term[1], **dict(term[2]))
        if kind == 'wait':
            return process_states.Wait(nxt, term[1], dict(term[2]) if isinstance(term[2], tuple) else term[2])
        if kind == 'ret':
            return term[1]
        if kind == 'unsucc':
            return plumpy.UnsuccessfulResult(term[1])
        if kind == 'stop':
            return process_states.Stop(term[1], term[2])
        if kind == 'killcmd':
            return process_states.Kill(None if term[1] is None else plumpy.MessageBuilder.kill(term[1]))
        term = kind
    if term == 'cont':
        return process_states.Continue(nxt)
    if term == 'cont_a':
        return process_states.Continue(nxt, *CONT_ARGS, **CONT_KWARGS)
    if term == 'wait':
        return process_states.Wait(nxt)
    if term == 'wait_d':
        return process_states.Wait(nxt, WAIT_MSG, WAIT_DATA)
    if term == 'ret':
        return RET_VALUE
    if term == 'ret_none':
        return None
    if term == 'unsucc':
        return plumpy.UnsuccessfulResult(UNSUCC_CODE)
    if term == 'stop_t':
        return process_states.Stop(STOP_VALUE, True)
    if term == 'stop_f':
        return process_states.Stop(STOP_VALUE, False)
    if term == 'killcmd':
        return process_states.Kill(plumpy.MessageBuilder.kill(KILLCMD_TEXT))
    if term == 'killcmd0':
        return process_states.Kill()  # the kill command without a message
    if term == 'raise0':
        exc0 = EmptyStepError(f'step-{idx}')
        ENV.raised.append(exc0)
        raise exc0
    if term == 'raise':
        exc = StepError(f'step-{idx}')
        ENV.raised.append(exc)
        raise exc
    raise AssertionError(term)  # pragma: no cover


def _make_step(idx: int, step: Tuple[str, tuple, str], last: bool) -> Any:
    kind, actions, term = step
    pre = [a for w, a in actions if w == 'pre']
    post = [a for w, a in actions if w == 'post']
    name = f's{idx}'

    if kind == 'S':

        def sync_step(self: Any, *args: Any, **kwargs: Any) -> Any:
            ENV.record(self, name, args, kwargs, 'enter')
            for a in pre:
                _do_action(self, idx, a)
            for a in post:
                _do_action(self, idx, a)
            return _terminate(self, idx, term, last)

        fn = sync_step
    else:
        n_yield = {'Y1': 1, 'Y2': 2, 'G': 0}[kind]

        async def async_step(self: Any, *args: Any, **kwargs: Any) -> Any:
            ENV.record(self, name, args, kwargs, 'enter')
            for a in pre:
                _do_action(self, idx, a)
            if kind == 'G':
                await ENV.gate(self, idx)
                ENV.record(self, name, (), {}, 'resumed')
            for _ in range(n_yield):
                await asyncio.sleep(0)
                ENV.record(self, name, (), {}, 'resumed')
            for a in post:
                _do_action(self, idx, a)
            return _terminate(self, idx, term, last)

        fn = async_step
    fn.__name__ = name
    fn.__qualname__ = name
    return fn


_CLASSES: Dict[Any, type] = {}


def make_class(program: Tuple[Tuple[str, tuple, str], ...], base: type = plumpy.Process) -> type:
    key = (program, base.__name__)
    cls = _CLASSES.get(key)
    if cls is not None:
        return cls
    name = f'P_{digest(key)}'
    n = len(program)
    ns: Dict[str, Any] = {'PROGRAM': program, '__module__': __name__}
    for i, step in enumerate(program):
        ns[f's{i}'] = _make_step(i, step, i == n - 1)

    def define(cls_: Any, spec: Any) -> None:
        super(cls, cls_).define(spec)
        for i in range(n):
            spec.output(f'o{i}', required=False)

    def __init__(self: Any, *args: Any, **kwargs: Any) -> None:
        base.__init__(self, *args, **kwargs)
        self._trace = []
        if ENV is not None:
            ENV.attach(self)

    async def run(self: Any) -> Any:
        return process_states.Continue(self.s0)

    def on_pausing(self: Any, msg: Any = None) -> None:
        if ENV is not None:
            ENV.pre_pause_status = self.status
        base.on_pausing(self, msg)

    ns['define'] = classmethod(define)
    ns['__init__'] = __init__
    ns['run'] = run
    ns['on_pausing'] = on_pausing
    cls = type(name, (base,), ns)
    cls = persistence.auto_persist('_trace')(cls)
    _CLASSES[key] = cls
    setattr(sys.modules[__name__], name, cls)
    return cls


# ---------------------------------------------------------------------------------------------------------------------
# Enumeration (fixed, simplest-first order)


def linear_programs(max_len: int, kinds: Tuple[str, ...], nonfinal: Tuple[str, ...], final: Tuple[str, ...],
                    min_len: int = 1) -> Iterator[Tuple[Tuple[str, tuple, str], ...]]:
    for length in range(min_len, max_len + 1):
        for ks in itertools.product(kinds, repeat=length):
            for nts in itertools.product(nonfinal, repeat=length - 1):
                for ft in final:
                    terms = nts + (ft,)
                    yield tuple((ks[i], (), terms[i]) for i in range(length))


def with_actions(programs: List[Tuple[Tuple[str, tuple, str], ...]], actions: Tuple[str, ...],
                 wheres: Tuple[str, ...] = ('pre', 'post')) -> Iterator[Tuple[Tuple[str, tuple, str], ...]]:
    """One factor at a time: every action at every step position of every base program."""
    for prog in programs:
        for i, (kind, _, term) in enumerate(prog):
            for action in actions:
                for where in wheres:
                    if kind == 'S' and where == 'post':
                        continue  # identical to 'pre' for a sync step
                    yield prog[:i] + ((kind, ((where, action),), term),) + prog[i + 1:]


def describe(program: Tuple[Tuple[str, tuple, str], ...]) -> str:
    parts = []
    for kind, actions, term in program:
        acts = ''.join(f'+{w}:{a}' for w, a in actions)
        parts.append(f'{kind}{acts}>{term}')
    return ' ; '.join(parts)
