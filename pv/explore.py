# -*- coding: utf-8 -*-
"""Stateless, deviation-bounded exhaustive exploration by prefix replay (DESIGN.md 2.2).

An *execution* is a function ``run(chooser) -> ExecResult`` that builds a fresh world and asks the chooser at every
choice point.  ``options`` is a list of ``(label, cost)`` where ``cost`` is '' for free options (the first option is always
free: it is the default that runs the program to completion) or the name of a deviation budget ('K', 'J', 'F', 'M').
"""
from __future__ import annotations

import hashlib
import json
import multiprocessing as mp
import os
import time
import traceback
from collections import Counter
from typing import Any, Callable, Dict, Iterable, List, Optional, Sequence, Tuple


class Nondeterminism(Exception):
    """Replaying a recorded prefix met different options: the harness does not own some nondeterminism."""


class Hang(KeyboardInterrupt):
    """Raised by the watchdog when one execution does not finish (an unbounded loop inside a single callback)."""


class watchdog:
    """``with watchdog(seconds):`` raises Hang inside the block when it runs longer than that (wall clock)."""

    def __init__(self, seconds: float = 30.0) -> None:
        self.seconds = seconds

    def _fire(self, signum: Any, frame: Any) -> None:
        import traceback as tb
        self.where = ''.join(tb.format_stack(frame, limit=6))
        raise Hang(self.where)

    def __enter__(self) -> 'watchdog':
        import signal
        self.where = ''
        self._old = signal.signal(signal.SIGALRM, self._fire)
        signal.setitimer(signal.ITIMER_REAL, self.seconds)
        return self

    def __exit__(self, *exc: Any) -> None:
        import signal
        signal.setitimer(signal.ITIMER_REAL, 0)
        signal.signal(signal.SIGALRM, self._old)


WATCHDOG_S = 8.0


def guarded(run: Any, ch: Any) -> 'ExecResult':
    """One execution under the watchdog; an execution that does not finish is reported as a 'hang' violation."""
    try:
        with watchdog(WATCHDOG_S):
            return run(ch)
    except Hang as hang:
        res = ExecResult()
        res.capped = True
        res.violations.append({'clause': 'hang', 'features': {},
                               'detail': f'execution did not finish within {WATCHDOG_S}s (unbounded loop inside one '
                                         f'callback?)\n{hang}'})
        return res


def guarded_case(case: Any, fn: Any, *args: Any, seconds: float = 0.0, **kwargs: Any) -> Any:
    """Run ``fn`` under the watchdog; returns its result, or a list with one 'hang' violation for this case."""
    try:
        with watchdog(seconds or 4 * WATCHDOG_S):
            return fn(*args, **kwargs)
    except Hang as hang:
        return [{'clause': 'hang', 'features': {}, 'case': case,
                 'detail': f'case did not finish within {seconds or 4 * WATCHDOG_S}s (unbounded loop?)\n{hang}'}]


class Chooser:
    __slots__ = ('prefix', 'expect', 'log', 'keys')

    def __init__(self, prefix: Sequence[int] = (), expect: Sequence[Any] = (), keys: Optional[list] = None) -> None:
        self.prefix = prefix
        self.expect = expect
        self.keys = keys  # a list: the driver appends the canonical key of the world at every choice point
        self.log: List[Tuple[int, List[Tuple[Any, str]]]] = []

    def choose(self, options: List[Tuple[Any, str]]) -> int:
        i = len(self.log)
        if i < len(self.prefix):
            c = self.prefix[i]
            if c >= len(options) or (i < len(self.expect) and options[c][0] != self.expect[i]):
                raise Nondeterminism(f'choice point {i}: recorded {self.expect[i] if i < len(self.expect) else c!r}, '
                                     f'now {options!r}')
        else:
            c = 0
        self.log.append((c, options))
        return c

    @property
    def choices(self) -> List[int]:
        return [c for c, _ in self.log]

    @property
    def labels(self) -> List[Any]:
        return [opts[c][0] for c, opts in self.log]


class ExecResult:
    """What one execution reports back to the explorer."""

    __slots__ = ('violations', 'outcome', 'states', 'nontrivial', 'transitions', 'capped', 'sample', 'extra', 'extra_obs')

    def __init__(self) -> None:
        self.violations: List[dict] = []  # each: {'clause':..., 'features': {...}, 'detail': ...}
        self.outcome: Any = None  # hashable summary of what was observed (for distinct-outcome counting)
        self.states: set = set()  # hashable public-state signatures seen at the samples
        self.nontrivial = False
        self.transitions = 0
        self.capped = False
        self.sample: Any = None
        self.extra: Dict[str, int] = {}
        self.extra_obs: Any = None


def digest(obj: Any) -> str:
    return hashlib.sha1(repr(obj).encode()).hexdigest()[:16]


def dfs(run: Callable[[Chooser], ExecResult], budget: Dict[str, int], root: Tuple[Tuple[int, ...], Tuple[Any, ...]] = ((), ()),
        deadline: Optional[float] = None, on_result: Optional[Callable[[Chooser, ExecResult], None]] = None,
        expand_root_only: bool = False) -> Dict[str, Any]:
    """Enumerate every choice sequence below ``root`` whose deviations stay within ``budget``."""
    stack: List[Tuple[Tuple[int, ...], Tuple[Any, ...]]] = [root]
    n_exec = 0
    capped = False
    children: List[Tuple[Tuple[int, ...], Tuple[Any, ...]]] = []
    while stack:
        if deadline is not None and time.time() > deadline:
            capped = True
            break
        prefix, expect = stack.pop()
        ch = Chooser(prefix, expect)
        res = guarded(run, ch)
        n_exec += 1
        if on_result is not None:
            on_result(ch, res)
        # expand alternatives after the prefix
        used: Counter = Counter()
        chosen = ch.choices
        labels = ch.labels
        for i, (c, opts) in enumerate(ch.log):
            if i >= len(prefix):
                for alt in range(1, len(opts)):
                    cost = opts[alt][1]
                    if cost and used[cost] + 1 > budget.get(cost, 0):
                        continue
                    child = (tuple(chosen[:i]) + (alt,), tuple(labels[:i]) + (opts[alt][0],))
                    if expand_root_only:
                        children.append(child)
                    else:
                        stack.append(child)
            cost = opts[c][1]
            if cost:
                used[cost] += 1
        if expand_root_only:
            break
    return {'executions': n_exec, 'capped': capped, 'children': children}


# ---------------------------------------------------------------------------------------------------------------------
# Aggregation and the worker pool


class Aggregate:
    """Mergeable summary of many executions."""

    PER_CLAUSE = 6

    def __init__(self) -> None:
        self.executions = 0
        self.transitions = 0
        self.nontrivial = 0
        self.capped = 0
        self.outcomes: set = set()
        self.states: set = set()
        self.violations: List[dict] = []
        self.violation_count = 0
        self.by_key: Counter = Counter()  # (clause, features) -> count
        self.samples: List[Any] = []
        self.extra: Counter = Counter()
        self.errors: List[str] = []

    def add(self, unit: Any, ch: Chooser, res: ExecResult) -> None:
        self.executions += 1
        self.transitions += res.transitions
        if res.nontrivial:
            self.nontrivial += 1
        if res.capped:
            self.capped += 1
        if res.outcome is not None:
            self.outcomes.add(digest((unit_key(unit), res.outcome)))
        for s in res.states:
            self.states.add(digest((unit_key(unit), s)))
        for k, v in res.extra.items():
            self.extra[k] += v
        if res.sample is not None and len(self.samples) < 3:
            self.samples.append(res.sample)
        for v in res.violations:
            self.violation_count += 1
            key = (v.get('clause'), json.dumps(v.get('features', {}), sort_keys=True, default=repr))
            self.by_key[key] += 1
            # keep the first (= fewest deviations first in DFS order is not guaranteed; keep shortest choice list)
            v = dict(v)
            v['unit'] = unit
            v['choices'] = ch.choices
            v['labels'] = [repr(x) for x in ch.labels]
            self._keep(key, v)

    def _keep(self, key: Any, v: dict) -> None:
        """Keep, per clause, the PER_CLAUSE cheapest distinct signatures (cheapest witness of each)."""
        v['_key'] = key
        clause = key[0]
        same = [o for o in self.violations if o['_key'][0] == clause]
        for old in same:
            if old['_key'] == key:
                if cost_of(v) < cost_of(old):
                    self.violations[self.violations.index(old)] = v
                return
        if len(same) < self.PER_CLAUSE:
            self.violations.append(v)
            return
        worst = max(same, key=cost_of)
        if cost_of(v) < cost_of(worst):
            self.violations[self.violations.index(worst)] = v

    def merge(self, other: 'Aggregate') -> None:
        self.executions += other.executions
        self.transitions += other.transitions
        self.nontrivial += other.nontrivial
        self.capped += other.capped
        self.outcomes |= other.outcomes
        self.states |= other.states
        self.violation_count += other.violation_count
        self.by_key.update(other.by_key)
        self.extra.update(other.extra)
        for v in other.violations:
            self._keep(v['_key'], v)
        for s in other.samples:
            if len(self.samples) < 6:
                self.samples.append(s)
        self.errors.extend(other.errors)


def cost_of(v: dict) -> Tuple[Any, ...]:
    ch = v.get('choices', [])
    return (sum(1 for c in ch if c), len(ch), len(repr(v.get('unit'))), repr(v.get('unit')), ch)


def unit_key(unit: Any) -> Any:
    return unit[0] if isinstance(unit, tuple) else unit


class _StopUnit(Exception):
    pass


_WORKER: Dict[str, Any] = {}
HANGS = mp.Value('i', 0)  # executions stopped by the watchdog, shared by the forked workers
MAX_HANGS = 6  # after that many the run is abandoned (it is reported as a violation and as capped anyway)


def _init_worker(factory: Callable[..., Any], fargs: tuple) -> None:
    _WORKER['prop'] = factory(*fargs)


def _run_unit(args: Tuple[Any, Tuple[Tuple[int, ...], Tuple[Any, ...]], Dict[str, int], Optional[float]]) -> Aggregate:
    unit, root, budget, deadline = args
    prop = _WORKER['prop']
    agg = Aggregate()
    try:
        run = prop.make_run(unit)

        def on_result(ch: Chooser, res: ExecResult) -> None:
            agg.add(unit, ch, res)
            if any(v.get('clause') == 'hang' for v in res.violations):
                with HANGS.get_lock():
                    HANGS.value += 1
            if HANGS.value >= MAX_HANGS:
                raise _StopUnit()

        try:
            if HANGS.value >= MAX_HANGS:
                raise _StopUnit()
            out = dfs(run, budget, root=root, deadline=deadline, on_result=on_result)
        except _StopUnit:
            out = {'capped': True}
            agg.extra['units_abandoned_after_hangs'] += 1
        if out['capped']:
            agg.capped += 1
            agg.extra['time_capped_units'] += 1
    except Nondeterminism as exc:
        agg.errors.append(f'NONDETERMINISM unit={unit!r}: {exc}')
    except BaseException as exc:  # noqa: BLE001
        agg.errors.append(f'ERROR unit={unit!r}: {type(exc).__name__}: {exc}\n{traceback.format_exc()}')
    return agg


def explore_units(factory: Callable[..., Any], fargs: tuple, units: Sequence[Any], budget: Dict[str, int],
                  workers: Optional[int] = None, split: bool = True, deadline: Optional[float] = None,
                  chunk: int = 1, split_depth: int = 1) -> Aggregate:
    """Explore every unit (a program / scenario descriptor) exhaustively within ``budget`` on a pool of forked workers.

    With ``split`` the first level of each unit's tree is expanded in the parent so that big trees spread over workers.
    """
    workers = workers or min(16, os.cpu_count() or 1)
    total = Aggregate()
    HANGS.value = 0
    jobs: List[Tuple[Any, Any, Dict[str, int], Optional[float]]] = []
    prop = factory(*fargs)
    for unit in units:
        if split:
            try:
                run = prop.make_run(unit)

                def on_result(ch: Chooser, res: ExecResult, unit: Any = unit) -> None:
                    total.add(unit, ch, res)

                out = dfs(run, budget, on_result=on_result, expand_root_only=True)
            except Nondeterminism as exc:
                total.errors.append(f'NONDETERMINISM unit={unit!r}: {exc}')
                continue
            children = out['children']
            for _ in range(split_depth - 1):
                # expand one more level in the parent so that deep, narrow trees (few first moves) spread over the workers
                grand: List[Any] = []
                try:
                    for child in children:
                        sub = dfs(run, budget, root=child, on_result=on_result, expand_root_only=True)
                        grand.extend(sub['children'])
                except Nondeterminism as exc:
                    total.errors.append(f'NONDETERMINISM unit={unit!r}: {exc}')
                    grand = []
                children = grand
            for child in children:
                jobs.append((unit, child, budget, deadline))
        else:
            jobs.append((unit, ((), ()), budget, deadline))
    if workers <= 1 or len(jobs) <= 1:
        _WORKER['prop'] = prop
        for job in jobs:
            total.merge(_run_unit(job))
        return total
    ctx = mp.get_context('fork')
    with ctx.Pool(workers, initializer=_init_worker, initargs=(factory, fargs)) as pool:
        for agg in pool.imap_unordered(_run_unit, jobs, chunksize=chunk):
            total.merge(agg)
    return total


def guarded_part(fn: Callable[[], Dict[str, Any]], seconds: float, case: Dict[str, Any]) -> Dict[str, Any]:
    """Run a sequential part of a check (in the main process) under the watchdog: a part that does not finish becomes a
    'hang' violation instead of a check that never ends."""
    try:
        with watchdog(seconds):
            return fn()
    except Hang as hang:
        return {'n': 0, 'nontrivial': 0, 'restores': 0,
                'violations': [{'clause': 'hang', 'features': dict(case), 'case': dict(case),
                                'detail': f'this part of the check did not finish within {seconds}s (unbounded loop?)\n{hang}'}]}



# ---------------------------------------------------------------------------------------------------------------------
# Stateful closure search (DESIGN.md 2.2): unbounded number of deviations, canonical-state dedup


def closure(run: Callable[[Chooser], ExecResult], max_states: int = 50000, deadline: Optional[float] = None,
            on_result: Optional[Callable[[Chooser, ExecResult], None]] = None) -> Dict[str, Any]:
    """Breadth-first search over choice histories in which *every* alternative at *every* choice point is taken (no
    deviation budget); a history is expanded only if the canonical key of the world it reaches was not seen before.
    Every history that is run is a complete execution of the implementation (prefix, then defaults to the end) and is
    judged by the oracle like any other.  Returns the set of keys, the number of executions and whether a cap was hit."""
    from collections import deque
    seen: set = set()
    frontier: Any = deque([((), ())])
    n_exec = 0
    edges = 0
    capped = False
    depth = 0
    while frontier:
        if (deadline is not None and time.time() > deadline) or len(seen) > max_states:
            capped = True
            break
        prefix, expect = frontier.popleft()
        ch = Chooser(prefix, expect, keys=[])
        res = guarded(run, ch)
        n_exec += 1
        if on_result is not None:
            on_result(ch, res)
        chosen, labels = ch.choices, ch.labels
        for i in range(len(prefix), min(len(ch.log), len(ch.keys))):
            k = ch.keys[i]
            if k in seen:
                break
            seen.add(k)
            depth = max(depth, i)
            opts = ch.log[i][1]
            for alt in range(1, len(opts)):
                edges += 1
                frontier.append((tuple(chosen[:i]) + (alt,), tuple(labels[:i]) + (opts[alt][0],)))
    return {'executions': n_exec, 'states': seen, 'edges': edges, 'capped': capped, 'max_depth': depth,
            'frontier_left': len(frontier)}


def _closure_unit(args: Tuple[Any, int, Optional[float], Dict[str, int]]) -> Tuple[Aggregate, Dict[str, Any]]:
    unit, max_states, deadline, cross_budget = args
    prop = _WORKER['prop']
    agg = Aggregate()
    info: Dict[str, Any] = {'unit': unit, 'states': 0, 'executions': 0, 'capped': False, 'cross_missing': 0,
                            'cross_points': 0, 'max_depth': 0}
    try:
        run = prop.make_run(unit)

        def on_result(ch: Chooser, res: ExecResult) -> None:
            agg.add(unit, ch, res)

        out = closure(run, max_states=max_states, deadline=deadline, on_result=on_result)
        info.update(states=len(out['states']), executions=out['executions'], capped=out['capped'],
                    max_depth=out['max_depth'], edges=out['edges'])
        if out['capped']:
            agg.capped += 1
            agg.extra['closure_capped_units'] += 1
        elif cross_budget:
            # soundness cross-check of the canonical key: every world the budgeted stateless search visits must be in
            # the closure (it explores a superset of histories; a miss means the key merged states with different futures)
            seen = out['states']
            stack: List[Tuple[Tuple[int, ...], Tuple[Any, ...]]] = [((), ())]
            while stack:
                prefix, expect = stack.pop()
                ch = Chooser(prefix, expect, keys=[])
                guarded(run, ch)
                for k in ch.keys:
                    info['cross_points'] += 1
                    if k not in seen:
                        info['cross_missing'] += 1
                used: Counter = Counter()
                chosen, labels = ch.choices, ch.labels
                for i, (c, opts) in enumerate(ch.log):
                    if i >= len(prefix):
                        for alt in range(1, len(opts)):
                            cost = opts[alt][1]
                            if cost and used[cost] + 1 > cross_budget.get(cost, 0):
                                continue
                            stack.append((tuple(chosen[:i]) + (alt,), tuple(labels[:i]) + (opts[alt][0],)))
                    if opts[c][1]:
                        used[opts[c][1]] += 1
    except Nondeterminism as exc:
        agg.errors.append(f'NONDETERMINISM unit={unit!r}: {exc}')
    except BaseException as exc:  # noqa: BLE001
        agg.errors.append(f'ERROR unit={unit!r}: {type(exc).__name__}: {exc}\n{traceback.format_exc()}')
    return agg, info


def closure_units(factory: Callable[..., Any], fargs: tuple, units: Sequence[Any], workers: Optional[int] = None,
                  max_states: int = 50000, deadline: Optional[float] = None,
                  cross_budget: Optional[Dict[str, int]] = None) -> Tuple[Aggregate, List[Dict[str, Any]]]:
    """Closure search of every unit (one worker per unit; the visited set is per unit)."""
    workers = workers or min(16, os.cpu_count() or 1)
    total = Aggregate()
    infos: List[Dict[str, Any]] = []
    jobs = [(u, max_states, deadline, cross_budget or {}) for u in units]
    if workers <= 1 or len(jobs) <= 1:
        _WORKER['prop'] = factory(*fargs)
        for job in jobs:
            agg, info = _closure_unit(job)
            total.merge(agg)
            infos.append(info)
        return total, infos
    ctx = mp.get_context('fork')
    with ctx.Pool(workers, initializer=_init_worker, initargs=(factory, fargs)) as pool:
        for agg, info in pool.imap_unordered(_closure_unit, jobs, chunksize=1):
            total.merge(agg)
            infos.append(info)
    infos.sort(key=lambda i: repr(i['unit']))
    return total, infos
