# -*- coding: utf-8 -*-
"""Setup command: nothing to build; verifies that the framework imports against /repo and that VLoop runs a process."""
import os
import sys

ROOT = os.path.dirname(os.path.dirname(os.path.abspath(__file__)))
sys.path.insert(0, os.path.join(os.environ.get('PV_REPO', '/repo'), 'src'))


def main() -> int:
    import plumpy

    from pv.vloop import VLoop

    class P(plumpy.Process):
        def run(self):
            return 7

    loop = VLoop()
    loop.install()
    try:
        proc = P(pid='selftest', loop=loop)
        loop.create_task(proc.step_until_terminated())
        loop.drain()
        assert proc.result() == 7
    finally:
        loop.shutdown()
    os.makedirs(os.path.join(ROOT, 'evidence'), exist_ok=True)
    os.makedirs(os.path.join(ROOT, 'replays'), exist_ok=True)
    print('pv selftest ok; plumpy from', os.path.dirname(plumpy.__file__))
    return 0


if __name__ == '__main__':
    sys.exit(main())
