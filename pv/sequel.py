# -*- coding: utf-8 -*-
"""Does what a process does depend on the processes that ran before it in the same interpreter?

``python -m pv.sequel <module> <factory> <json>`` runs, in a fresh interpreter, the execution ``first`` (a unit and a choice
list; may be null) and then - each in a fork of its own, so that they do not see one another - every execution of ``then``;
prints the observed (outcome, violated clauses) of each as JSON.  The caller compares the answers with those of the same
executions after *no* earlier process (DESIGN.md 3, C06 part (v)).  Hidden state shared between processes (a class-level
list, a cache keyed too coarsely) shows as a difference.
"""
from __future__ import annotations

import importlib
import json
import os
import sys
from typing import Any, List


def _observe(prop: Any, unit: Any, choices: List[int]) -> Any:
    from .explore import Chooser, Nondeterminism
    try:
        res = prop.make_run(unit)(Chooser(tuple(choices)))
    except Nondeterminism as exc:
        return ['diverged', str(exc)[:200]]
    return [repr(res.outcome), sorted(str(v.get('clause')) for v in res.violations)]


def main(argv: List[str]) -> int:
    from .cli import to_tuple
    mod = importlib.import_module(argv[0])
    prop = getattr(mod, argv[1])()
    job = json.loads(argv[2])
    if job.get('first') is not None:
        _observe(prop, to_tuple(job['first'][0]), job['first'][1])
    out = []
    for unit, choices in job['then']:
        r, w = os.pipe()
        pid = os.fork()
        if pid == 0:
            os.close(r)
            try:
                data = json.dumps(_observe(prop, to_tuple(unit), choices))
            except BaseException as exc:  # noqa: BLE001
                data = json.dumps(['raised', repr(exc)[:200]])
            os.write(w, data.encode())
            os._exit(0)
        os.close(w)
        chunks = []
        while True:
            b = os.read(r, 65536)
            if not b:
                break
            chunks.append(b)
        os.close(r)
        os.waitpid(pid, 0)
        out.append(json.loads(b''.join(chunks).decode() or '["no-answer"]'))
    print(json.dumps(out))
    return 0


def ask(module: str, factory: str, first: Any, then: Any, timeout: float = 120.0) -> Any:
    """Run the above in a fresh interpreter with the environment of this one."""
    import subprocess
    job = json.dumps({'first': first, 'then': then}, default=repr)
    proc = subprocess.run([sys.executable, '-m', 'pv.sequel', module, factory, job], capture_output=True, text=True,
                          timeout=timeout, env=dict(os.environ))
    if proc.returncode != 0:
        raise RuntimeError(f'sequel runner failed: {proc.stderr[-400:]}')
    return json.loads(proc.stdout.strip().splitlines()[-1])


if __name__ == '__main__':
    sys.exit(main(sys.argv[1:]))
