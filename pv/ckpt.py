# -*- coding: utf-8 -*-
"""Checkpoint / abandon / restore harness (the M dimension of DESIGN.md 2.2), used by C08 and C13.

A *boundary* is a point at which a checkpoint can be taken: boundary 0 is right after construction, boundary k (k>=1) is
the k-th time a non-terminal state is entered (the ENTERED callback: the state has been entered but not executed).
``run(cls, restore_at, ...)`` executes the program to termination on VLoops; at every boundary in ``restore_at`` the
process is bundled, the bundle goes through the chosen medium, the running instance is *abandoned* (a private
BaseException raised from the ENTERED callback stops it dead inside the callback, exactly what a crash right after the
checkpoint was written looks like), and the bundle is loaded into a fresh loop and continued.
"""
from __future__ import annotations

import asyncio
import copy
import pickle
from typing import Any, Callable, Dict, List, Optional, Sequence, Tuple

import plumpy
import yaml
from plumpy import persistence, process_states
from plumpy.base import state_machine

from . import programs
from .vloop import Horizon, VLoop

PS = process_states.ProcessState
NOVALUE = '<no-value>'


class Abandon(BaseException):
    pass


def through(bundle: Any, medium: str) -> Any:
    if medium == 'deepcopy':
        return copy.deepcopy(bundle)
    if medium == 'pickle':
        return pickle.loads(pickle.dumps(bundle))
    if medium == 'yaml':
        return yaml.load(yaml.dump(bundle), Loader=yaml.Loader)
    raise AssertionError(medium)


class CkptWorld:
    """The ``programs.ENV`` object for checkpointed runs; records what the generated user code does across instances."""

    def __init__(self, restore_at: Sequence[int], resume_script: Sequence[Any], medium: str, horizon: int = 3000,
                 gate_values: Optional[Callable[[int], Any]] = None, exit_restore_at: Sequence[int] = (),
                 foreign_loop: bool = False, spare_saves: bool = False) -> None:
        self.restore_at = set(restore_at)
        # a checkpoint is also written (and never used) every time a state has been entered: writing one changes nothing
        self.spare_saves = spare_saves
        # restore while *another* loop is the current one: the loop of the restored process is the one handed over in the
        # load context, whatever loop happens to be current where the checkpoint is loaded
        self.foreign_loop = foreign_loop
        # checkpoints taken in the *exit* hook of the k-th RUNNING state (the step has returned, the state change has not
        # happened yet): restoring such a checkpoint legitimately runs that step again
        self.exit_restore_at = set(exit_restore_at)
        self.exit_boundary = 0
        self.resume_script = list(resume_script)
        self.medium = medium
        self.horizon = horizon
        self.trace: List[tuple] = []
        self.raised: List[BaseException] = []
        self.calls: List[dict] = []
        self.entered: List[Tuple[Any, Any]] = []
        self.boundary = 0
        self.snapshot: Any = None
        self.proc: Any = None
        self.loop: Optional[VLoop] = None
        self.gates: Dict[int, asyncio.Future] = {}
        self.restores = 0
        self.n_choice = 0
        self.pre_pause_status: Any = None
        self.instances = 0
        self.errors: List[str] = []

    # hooks used by generated programs
    def attach(self, proc: Any) -> None:
        self.proc = proc
        proc.add_state_event_callback(state_machine.StateEventHook.ENTERED_STATE, self._entered)
        if self.exit_restore_at or self.spare_saves:
            proc.add_state_event_callback(state_machine.StateEventHook.EXITING_STATE, self._exiting)

    def _exiting(self, sm: Any, hook: Any, next_state: Any) -> None:
        if sm.state == PS.RUNNING:
            self.exit_boundary += 1
            if self.exit_boundary in self.exit_restore_at:
                self.exit_restore_at.discard(self.exit_boundary)  # the re-run of the step exits again: not a new boundary
                self.exit_boundary -= 1
                self.snapshot = through(persistence.Bundle(sm), self.medium)
                raise Abandon()

    def _entered(self, sm: Any, hook: Any, from_state: Any) -> None:
        frm = from_state.LABEL if from_state is not None else None
        self.entered.append((frm, sm.state))
        if sm.state in (PS.RUNNING, PS.WAITING):
            if self.spare_saves:
                persistence.Bundle(sm)
            self.boundary += 1
            if self.boundary in self.restore_at:
                self.snapshot = through(persistence.Bundle(sm), self.medium)
                raise Abandon()

    def record(self, proc: Any, name: str, args: tuple, kwargs: dict, phase: str) -> None:
        inputs = proc.inputs
        seen = None if inputs is None else tuple(sorted((k, repr(v)) for k, v in inputs.items()))
        self.trace.append((name, tuple(args), tuple(sorted(kwargs.items())), phase, seen))
        if phase == 'enter':
            proc._trace.append((name, tuple(args), tuple(sorted(kwargs.items()))))

    def gate(self, proc: Any, idx: int) -> asyncio.Future:
        fut = self.loop.create_future()  # type: ignore[union-attr]
        self.gates[idx] = fut
        return fut

    def logged_call(self, proc: Any, op: str, args: tuple, origin: str = 'env') -> dict:
        rec = {'op': op, 'args': args, 'origin': origin, 'raised': None}
        self.calls.append(rec)
        try:
            getattr(proc, op)(*args)
        except Exception as exc:  # noqa: BLE001
            rec['raised'] = exc
        return rec

    # driver
    def _new_loop(self) -> VLoop:
        if self.loop is not None:
            self.loop.shutdown()
        self.loop = VLoop(horizon=self.horizon)
        self.loop.install()
        self.gates = {}
        return self.loop

    def run(self, cls: type, inputs: Optional[dict] = None) -> Any:
        prev = programs.ENV
        programs.ENV = self
        try:
            loop = self._new_loop()
            proc = cls(inputs=inputs, pid='p0', loop=loop)
            self.instances = 1
            if 0 in self.restore_at:
                self.snapshot = through(persistence.Bundle(proc), self.medium)
                proc = self._restore()
            while True:
                task = self.loop.create_task(proc.step_until_terminated())  # type: ignore[union-attr]
                abandoned = self._drive(proc, task)
                if not abandoned:
                    break
                proc = self._restore()
            return proc
        finally:
            programs.ENV = prev

    def finish(self) -> None:
        if self.loop is not None:
            self.loop.shutdown()
            self.loop = None

    def _restore(self) -> Any:
        bundle, self.snapshot = self.snapshot, None
        if self.foreign_loop:
            if self.loop is not None:
                self.loop.shutdown()
            decoy = VLoop(horizon=self.horizon)
            decoy.install()
            loop = self.loop = VLoop(horizon=self.horizon)
            self.gates = {}
            try:
                proc = bundle.unbundle(persistence.LoadSaveContext(loop=loop))
            finally:
                decoy.shutdown()
            loop.install()
        else:
            loop = self._new_loop()
            proc = bundle.unbundle(persistence.LoadSaveContext(loop=loop))
        self.restores += 1
        self.instances += 1
        self.attach(proc)
        return proc

    def _drive(self, proc: Any, task: Any) -> bool:
        loop = self.loop
        assert loop is not None
        for _ in range(200):
            loop.drain()
            if task.done():
                if not task.cancelled() and isinstance(task.exception(), Abandon):
                    return True
                if self.snapshot is not None:
                    return True
            if self.snapshot is not None:
                return True
            if proc.has_terminated():
                return False
            # quiescent and live: provide what the program is waiting for
            pending = [g for g, f in sorted(self.gates.items()) if not f.done()]
            if pending:
                self.gates[pending[0]].set_result(f'g{pending[0]}')
            elif proc.paused:
                proc.play()
            elif proc.state == PS.WAITING:
                value = self.resume_script.pop(0) if self.resume_script else NOVALUE
                if value == NOVALUE:
                    proc.resume()
                else:
                    proc.resume(value)
            else:
                self.errors.append(f'stuck: {proc.state} task_done={task.done()}')
                return False
        self.errors.append('driver iteration cap')
        return False
