# -*- coding: utf-8 -*-
"""Glue between a property module using the schedule explorer and the command line."""
from __future__ import annotations

import time
from typing import Any, Callable, Dict, List, Optional, Sequence

from . import explore


def rotate(seq: Sequence[Any], seed: int) -> List[Any]:
    seq = list(seq)
    if not seq:
        return seq
    k = seed % len(seq)
    return seq[k:] + seq[:k]


def run_explorer(factory: Callable[..., Any], fargs: tuple, units: Sequence[Any], budget: Dict[str, int], seed: int,
                 workers: Optional[int], rule: str, assumptions: List[str], bounds: Dict[str, Any],
                 time_limit: Optional[float] = None, split: bool = True, describe: Callable[[Any], Any] = repr) -> Dict[str, Any]:
    units = rotate(units, seed)
    deadline = time.time() + time_limit if time_limit else None
    agg = explore.explore_units(factory, fargs, units, budget, workers=workers, split=split, deadline=deadline)
    violations = sorted(agg.violations, key=lambda v: (explore.cost_of(v), repr(v.get('unit')), v.get('choices')))
    for v in violations:
        v.pop('_key', None)
    capped = agg.capped > 0
    samples = sorted(agg.samples, key=repr)[:3] or [describe(u) for u in units[:2]]
    coverage = {
        'states': len(agg.states),
        'transitions': agg.transitions,
        'traces_validated_against_impl': agg.executions,
        'evaluations': agg.executions,
        'distinct_nontrivial': agg.nontrivial,
        'distinct_outcomes': len(agg.outcomes),
        'programs': len(units),
        'rule': rule,
        'samples': samples,
        'exhaustive': not capped and not agg.errors,
        'caps_hit': agg.capped,
        'bounds': bounds,
        'violating_executions': agg.violation_count,
        'violation_signatures': len(agg.by_key),
    }
    for k, v in sorted(agg.extra.items()):
        coverage[f'count_{k}'] = v
    return {'violations': violations, 'coverage': coverage, 'errors': agg.errors, 'assumptions': assumptions,
            'bounds': bounds, 'level': 'model_checking', 'complete': not capped}


def merge(outs: List[Dict[str, Any]]) -> Dict[str, Any]:
    """Combine the results of several explorations run by one check."""
    first = outs[0]
    cov = dict(first['coverage'])
    for other in outs[1:]:
        oc = other['coverage']
        for key in ('states', 'transitions', 'traces_validated_against_impl', 'evaluations', 'distinct_nontrivial',
                    'distinct_outcomes', 'programs', 'caps_hit', 'violating_executions', 'violation_signatures'):
            cov[key] = cov.get(key, 0) + oc.get(key, 0)
        cov['exhaustive'] = cov['exhaustive'] and oc['exhaustive']
        cov['rule'] = cov['rule'] + ' || ' + oc['rule']
        cov['samples'] = list(cov['samples']) + list(oc['samples'])[:2]
        cov['bounds'] = {'part1': cov.get('bounds'), 'part2': oc.get('bounds')}
    return {'violations': [v for o in outs for v in o['violations']], 'coverage': cov,
            'errors': [e for o in outs for e in o['errors']], 'assumptions': first['assumptions'],
            'bounds': cov.get('bounds'), 'level': 'model_checking', 'complete': all(o.get('complete', True) for o in outs)}
