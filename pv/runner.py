# -*- coding: utf-8 -*-
"""Glue between a property module using the schedule explorer and the command line."""
from __future__ import annotations

import time
from typing import Any, Callable, Dict, List, Optional, Sequence

from . import explore


def rotate(seq: Sequence[Any], seed: int) -> List[Any]:
    seq = list(seq)
    if not seq:
        return seq
    k = seed % len(seq)
    return seq[k:] + seq[:k]


def run_explorer(factory: Callable[..., Any], fargs: tuple, units: Sequence[Any], budget: Dict[str, int], seed: int,
                 workers: Optional[int], rule: str, assumptions: List[str], bounds: Dict[str, Any],
                 time_limit: Optional[float] = None, split: bool = True, describe: Callable[[Any], Any] = repr,
                 split_depth: int = 1) -> Dict[str, Any]:
    units = rotate(units, seed)
    deadline = time.time() + time_limit if time_limit else None
    agg = explore.explore_units(factory, fargs, units, budget, workers=workers, split=split, deadline=deadline,
                                split_depth=split_depth)
    violations = sorted(agg.violations, key=lambda v: (explore.cost_of(v), repr(v.get('unit')), v.get('choices')))
    for v in violations:
        v.pop('_key', None)
    capped = agg.capped > 0
    samples = sorted(agg.samples, key=repr)[:3] or [describe(u) for u in units[:2]]
    coverage = {
        'states': len(agg.states),
        'transitions': agg.transitions,
        'traces_validated_against_impl': agg.executions,
        'evaluations': agg.executions,
        'distinct_nontrivial': agg.nontrivial,
        'distinct_outcomes': len(agg.outcomes),
        'programs': len(units),
        'rule': rule,
        'samples': samples,
        'exhaustive': not capped and not agg.errors,
        'caps_hit': agg.capped,
        'bounds': bounds,
        'violating_executions': agg.violation_count,
        'violation_signatures': len(agg.by_key),
    }
    for k, v in sorted(agg.extra.items()):
        coverage[f'count_{k}'] = v
    return {'violations': violations, 'coverage': coverage, 'errors': agg.errors, 'assumptions': assumptions,
            'bounds': bounds, 'level': 'model_checking', 'complete': not capped}


def merge(outs: List[Dict[str, Any]]) -> Dict[str, Any]:
    """Combine the results of several explorations run by one check."""
    first = outs[0]
    cov = dict(first['coverage'])
    for other in outs[1:]:
        oc = other['coverage']
        for key in ('states', 'transitions', 'traces_validated_against_impl', 'evaluations', 'distinct_nontrivial',
                    'distinct_outcomes', 'programs', 'caps_hit', 'violating_executions', 'violation_signatures'):
            cov[key] = cov.get(key, 0) + oc.get(key, 0)
        cov['exhaustive'] = cov['exhaustive'] and oc['exhaustive']
        cov['rule'] = cov['rule'] + ' || ' + oc['rule']
        cov['samples'] = list(cov['samples']) + list(oc['samples'])[:2]
        cov['bounds'] = {'part1': cov.get('bounds'), 'part2': oc.get('bounds')}
    return {'violations': [v for o in outs for v in o['violations']], 'coverage': cov,
            'errors': [e for o in outs for e in o['errors']], 'assumptions': first['assumptions'],
            'bounds': cov.get('bounds'), 'level': 'model_checking', 'complete': all(o.get('complete', True) for o in outs)}


def run_closure(factory: Callable[..., Any], fargs: tuple, units: Sequence[Any], seed: int, workers: Optional[int],
                rule: str, bounds: Dict[str, Any], max_states: int = 60000, time_limit: Optional[float] = None,
                cross_budget: Optional[Dict[str, int]] = None, describe: Callable[[Any], Any] = repr) -> Dict[str, Any]:
    """Stateful closure search (explore.closure) of every unit; same result shape as ``run_explorer``."""
    units = rotate(units, seed)
    deadline = time.time() + time_limit if time_limit else None
    agg, infos = explore.closure_units(factory, fargs, units, workers=workers, max_states=max_states, deadline=deadline,
                                       cross_budget=cross_budget)
    violations = sorted(agg.violations, key=lambda v: (explore.cost_of(v), repr(v.get('unit')), v.get('choices')))
    for v in violations:
        v.pop('_key', None)
    capped_units = [i for i in infos if i['capped']]
    missing = sum(i['cross_missing'] for i in infos)
    coverage = {
        'states': sum(i['states'] for i in infos),
        'transitions': agg.transitions,
        'traces_validated_against_impl': agg.executions,
        'evaluations': agg.executions,
        'distinct_nontrivial': agg.nontrivial,
        'distinct_outcomes': len(agg.outcomes),
        'programs': len(units),
        'rule': rule,
        'samples': sorted(agg.samples, key=repr)[:2] or [describe(u) for u in units[:2]],
        'exhaustive': not capped_units and not agg.errors,
        'caps_hit': len(capped_units),
        'bounds': bounds,
        'violating_executions': agg.violation_count,
        'violation_signatures': len(agg.by_key),
        'closure': {
            'units_closed': len(infos) - len(capped_units), 'units_capped': len(capped_units),
            'canonical_states': sum(i['states'] for i in infos), 'largest_unit_states': max([i['states'] for i in infos] or [0]),
            'longest_history': max([i['max_depth'] for i in infos] or [0]),
            'key_crosscheck_points': sum(i['cross_points'] for i in infos), 'key_crosscheck_missing': missing,
        },
    }
    for k, v in sorted(agg.extra.items()):
        coverage[f'count_{k}'] = v
    if missing:
        print(f'WARNING closure key cross-check: {missing} worlds of the budgeted stateless search are not in the closure '
              f'(the canonical key merges states with different futures; the closure evidence counts for less)')
    return {'violations': violations, 'coverage': coverage, 'errors': agg.errors, 'assumptions': [],
            'bounds': bounds, 'level': 'model_checking', 'complete': not capped_units}
