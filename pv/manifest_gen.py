# -*- coding: utf-8 -*-
"""Generates MANIFEST.json from the table below (run: /venv/bin/python -m pv.manifest_gen)."""
import json
import os

ROOT = os.path.dirname(os.path.dirname(os.path.abspath(__file__)))

BASELINE = ('cd /repo && /venv/bin/python -m pytest -ra -q -p no:cacheprovider --timeout=900 '
            '--continue-on-collection-errors')

# id -> (engine, technique, level text, level note, design ref)
CHECKS = {
    'C04': ('schedule-explorer',
            'stateless deviation-bounded exhaustive schedule exploration of the real Process on a hand-stepped event loop',
            'Every placement of <=K control requests (kill/pause/play/resume/future-cancel, also from listener callbacks '
            'and step bodies) and <=J early wake-ups between any two event-loop callbacks of every generated program is '
            'executed on the implementation; the kill oracle (never raises, never lost, result True iff KILLED, text '
            'recorded, unkillability probe from every live end configuration) is evaluated on each execution. Exhaustive '
            'within the stated bounds, no sampling.',
            'Trusts the hand-written VLoop (FIFO ready queue like every asyncio loop) and that control calls arrive '
            'between two loop callbacks; program family and bounds are those reported in the evidence file.',
            'DESIGN.md 3 C04'),
}

ALL = [f'C{i:02d}' for i in range(1, 21)]


def main() -> None:
    checks = []
    for pid, (engine, technique, text, note, ref) in sorted(CHECKS.items()):
        checks.append({
            'property_id': pid,
            'quick_cmd': f'./check {pid} --tier quick',
            'thorough_cmd': f'./check {pid} --tier thorough',
            'evidence_file': f'/verif/evidence/{pid}.json',
            'replay_cmd_template': f'./check {pid} --replay {{path}}',
            'engine': engine,
            'level_claimed': {'category': 'model_checking', 'text': text, 'design_ref': ref},
            'level_note': note,
            'technique': technique,
        })
    manifest = {
        'version': 1,
        'setup_cmd': 'cd /verif && /venv/bin/python -m pv.selftest',
        'hooks': {
            'guard': 'PLUMPY_VERIF',
            'enable': 'none needed: the checks import plumpy from /repo/src as it is (PYTHONPATH), no hooks were added',
            'baseline_off_cmd': BASELINE,
            'source_commits': [],
            'add_only': True,
        },
        'engines': [
            {'name': 'schedule-explorer', 'path': 'pv/explore.py pv/vloop.py pv/ctl.py',
             'serves_properties': [p for p, c in sorted(CHECKS.items()) if c[0] == 'schedule-explorer'],
             'kind_free_text': 'stateless model checker (prefix-replay DFS, deviation budgets) over the implementation '
                               'running on a deterministic hand-stepped asyncio loop'},
        ],
        'checks': checks,
        'not_applicable': [{'property_id': p, 'reason': 'check not built yet in this revision (planned, see DESIGN.md 7)'}
                           for p in ALL if p not in CHECKS],
        'notes': 'All checks explore the implementation itself; see DESIGN.md.',
    }
    with open(os.path.join(ROOT, 'MANIFEST.json'), 'w') as handle:
        json.dump(manifest, handle, indent=1)
        handle.write('\n')


if __name__ == '__main__':
    main()
