# -*- coding: utf-8 -*-
"""Generates MANIFEST.json from the table below (run: /venv/bin/python -m pv.manifest_gen)."""
import json
import os

ROOT = os.path.dirname(os.path.dirname(os.path.abspath(__file__)))

BASELINE = ('cd /repo && /venv/bin/python -m pytest -ra -q -p no:cacheprovider --timeout=900 '
            '--continue-on-collection-errors')

SCHED = 'schedule-explorer'
SCHED_TECH = ('stateless deviation-bounded exhaustive schedule exploration (prefix-replay DFS) of the real Process on a '
              'hand-stepped deterministic event loop')
SCHED_NOTE = ('Trusts the hand-written VLoop (FIFO ready queue like every asyncio loop), that control calls arrive between '
              'two loop callbacks, and the generated program family; bounds (K, J, program length) are those reported in '
              'the evidence file. Exhaustive within those bounds, no sampling.')


def sched(what: str, ref: str) -> tuple:
    return (SCHED, SCHED_TECH,
            'Every placement of <=K control requests and <=J early wake-ups between any two event-loop callbacks of every '
            'generated program is executed on the implementation itself and judged by: ' + what, SCHED_NOTE, ref)


# id -> (engine, technique, level text, level note, design ref)
CHECKS = {
    'C01': sched('the lifecycle-graph oracle (first state CREATED, every ENTERED pair an edge of the documented graph, the '
                 'terminal state and its outcome unchanged at every later sample including a post-mortem barrage of all '
                 'control calls, step(), execute() and late callbacks); requests are also placed after termination; programs also end in '
                 'the rarer step commands (Kill without a message, Stop with either flag, None); the smallest '
                 'programs are explored with K=4 (thorough 5).', 'DESIGN.md 3 C01'),
    'C02': sched('the outcome-agreement oracle (future/result()/successful()/killed_msg()/exception() agree, one terminal '
                 'listener notification - also next to a listener that unsubscribes itself inside a notification -, cleanups once, closed, '
                 'step_until_terminated() returned; future pending while live, sampled after every choice); requests include '
                 'withdrawing a pending pause / kill by cancelling the action it returned; also on work chains awaiting '
                 'futures / children and with K=4 on the smallest programs (there also a pause with a message).', 'DESIGN.md 3 C02'),
    'C03': ('fault-enumerator',
            'exhaustive fault-point enumeration (every hook / user function x occurrence x before|after super) over every '
            'single-request placement scenario on the real Process',
            'For the plain run and for pause / kill / pause+kill / pause+play issued after every tick count, an un-faulted '
            'census counts every fault site (steps, scheduled callback, output hooks, all on_* hooks, on_entering/entered/'
            'exiting, pause/play hooks, state enter/exit, init, listener methods); every (site, occurrence, before/after '
            'super) is then run with exactly that fault and judged by site class: constructor raises / listener changes '
            'nothing / pause-play hook reported to the requester and process still controllable / otherwise EXCEPTED with '
            'that exception, future raising it, closed, stepping returned, no loop exception context.',
            'One fault per run; scenarios issue their requests at fixed tick counts (every count is covered); two narrow '
            'known findings (on_terminated / on_close raising after super) are listed in KNOWN_FINDINGS.txt.',
            'DESIGN.md 3 C03'),
    'C04': sched('the kill oracle (never raises, never lost, no step starts after it, result True iff KILLED, text '
                 'recorded, future().cancel() equivalent also when the step in flight fails, a kill whose returned action is '
                 'cancelled again is withdrawn and leaves the process killable, unkillability probe from every live end configuration); also on work '
                 'chains awaiting futures / children, with K=4 on the smallest programs, on processes recreated from a '
                 'checkpoint at every waiting / paused point, and in bursts of <=5 (thorough 6) requests right behind one another at '
                 'the quiescent points of two waiting programs.',
                 'DESIGN.md 3 C04'),
    'C05': sched('the pause/play transparency oracle (no raise, nothing runs while paused, play un-pauses and withdraws a '
                 'pending pause - as does cancelling the action pause() returned -, trace/outputs/result equal to the uninterrupted run, '
                 'status restored, no step is entered while a pause request stands); also on work chains '
                 'and with K=4 (thorough 6) on the smallest programs, and in bursts of <=4 (thorough 5) requests right behind one another at '
                 'quiescent points.',
                 'DESIGN.md 3 C05'),
    'C06': sched('the wake-up oracle (an accepted resume / completed awaitables always lead to the continuation running '
                 'exactly once with the first accepted value - also a value whose == answers yes to everything -, never WAITING at '
                 'quiescence after play; a kill that is withdrawn again does not cost the wake-up); in addition bursts of <=5 (thorough 6) '
                 'requests right behind one another at the quiescent points of the waiting programs (the closing play only if a pause '
                 'request stands), and every burst history of a second process after every burst history of a first one in the same '
                 'fresh interpreter (what a process does with its wake-ups does not depend on earlier processes).',
                 'DESIGN.md 3 C06'),
    'C09': ('input-enumerator',
            'bounded-exhaustive enumeration of outline ASTs x exhaustive exploration (prefix-replay DFS) of every '
            'predicate/step return-value sequence on the real WorkChain, against a reference interpreter',
            'Every outline of the enumerated family (flat blocks, one compound with neighbours, two compounds in sequence, '
            'nesting depth 2; thorough: 3 conditions, depth 3) is instantiated as a real WorkChain and every sequence of '
            'predicate values and step return values is executed; the ordered step+predicate call trace, the final state '
            'and result() are compared with a 30-line reference interpreter of the structured program.',
            'Trusts the reference interpreter (written from the property statement) and the enumerated family/bounds '
            'reported in the evidence; while_ predicates are true at most W=2 times per run.', 'DESIGN.md 3 C09'),
    'C13': ('input-enumerator',
            'bounded-exhaustive enumeration of step chains x argument/resume/result domains x every subset of '
            'checkpoint-restore boundaries, executed on the real Process, against a reference model',
            'All chains of <=3 steps over Continue/Wait/value/UnsuccessfulResult/Stop/Kill with small argument, keyword, '
            'resume-value, result and message domains are run on the implementation, with a bundle->pickle->unbundle '
            'restore (abandoning the running instance) at every subset of state-entry boundaries (quick: subsets <=2); '
            'arguments received by each continuation and the final outcome are compared with a model of the statement.',
            'Trusts the reference model and the small value domains listed in the evidence rule; steps are synchronous.',
            'DESIGN.md 3 C13'),
    'C10': sched('the barrier oracle on work chains that register n loop futures / launched children by return ToContext, '
                 'to_context or both (outcome value / exception / killed child - by kill() or by cancelling its future - / cancelled '
                 'future; the same item under two keys): at the entry of the next step every '
                 'awaited item is done and in ctx, a failing or killed item ends the chain EXCEPTED with that error and '
                 'the next step never runs, a later assignment replaces the value. Completion events are placed at every '
                 'choice point in every order (J unbounded), plus <=1 pause/play.', 'DESIGN.md 3 C10'),
    'C11': ('input-enumerator',
            'bounded-exhaustive enumeration of input specs x nested input dictionaries on the real Process constructor, '
            'against a reference model of port namespaces',
            'Every InputPort attribute combination and every nested-namespace attribute combination (required, '
            'valid_type, default plain/callable - also on a namespace itself -, validator, dynamic, populate_defaults; nesting depth 3) is built as a '
            'real spec and every nested input dictionary over a small value domain (with falsy values, the empty tuple, '
            'non-mappings where a namespace is declared, and once more with the mappings of declared namespaces immutable) is given to the constructor; whether '
            'it raises, the parsed inputs, raw_inputs, read-only-ness and the caller dictionary are compared with '
            'pv/refports.py; the first accepted inputs of every spec are constructed again at the end and must parse the same.',
            'Trusts the reference model (written from the statement and the port docstrings); cases the statement does '
            'not define are outside the alphabet (listed in the evidence assumptions); no random part.', 'DESIGN.md 3 C11'),
    'C12': ('input-enumerator',
            'bounded-exhaustive enumeration of output specs x emission sequences x final returns on the real Process, '
            'against a reference model of port namespaces',
            'Every output spec of the family x every sequence of <=2 (thorough 3) emissions over declared, undeclared and '
            'nested-dynamic paths and values x final return is run; acceptance of each out(), the stored outputs, the '
            'exception type, listener notifications, result preservation and the success flag are compared with '
            'pv/refports.py. Each sequence runs on a fresh class; in addition every single emission is made by a second process '
            'of a class whose first process made any single emission. Paths include names declared one level up below an undeclared '
            'name; finals include the Stop command with either flag.',
            'Trusts the reference model; mappings as values and paths through leaf ports are '
            'outside the alphabet.', 'DESIGN.md 3 C12'),
    'C14': ('history-bfs',
            'explicit-state breadth-first search over persister operation histories with canonical-state deduplication, '
            'both persisters in lock-step against a dictionary model',
            'BFS over histories of save / a save that cannot succeed / advance-the-live-process / load / continue (recreate a '
            'process from the stored snapshot and run it to its end) / delete / delete-process / listings for two '
            'live processes (a work chain mutating ctx objects in place and a waiting process), tags (falsy ones included) and integer, UUID '
            'and string ids chosen to be string prefixes of each other; after every operation InMemoryPersister and '
            'PicklePersister (fresh /dev/shm directory per history) must agree with a dict model and with each other; '
            'loaded bundles are compared with the snapshot taken at save time although the process advanced since. In addition every '
            'history (no merging by canonical state) of <=4 (thorough 5) operations over the focused alphabet of one key is run, each '
            'followed by a load of every stored key and the listing (a persister that keeps more than its store - a cache of what it '
            'wrote or read - differs between histories that reach the same canonical state).',
            'Canonical state = stored key -> snapshot version + live progress (only used to prune); depth bound and '
            'closure are reported in the evidence; no crash consistency of pickle files is claimed.', 'DESIGN.md 3 C14'),
    'C15': ('input-enumerator',
            'bounded-exhaustive enumeration of include/exclude rule sets over colliding-name port trees on the real '
            'expose_inputs/expose_outputs/absorb, against a path-set selection model',
            'For five source trees (names that are string prefixes of each other, names that recur further down, empty '
            'namespaces, namespaces with a valid_type made non-dynamic again or with a default mapping) every include and '
            'exclude rule set (the empty one, <=2, thorough <=3 paths, no ancestor pairs) x target namespace x namespace option overrides x '
            'expose_inputs/expose_outputs/absorb is executed; the destination tree and namespace properties are compared '
            'with a set-algebra model and both sides are mutated to check independence; include+exclude and unknown '
            'options must be rejected.',
            'Trusts the selection model (written from the statement); rules naming an ancestor of another rule and the '
            'options dynamic=False together with a valid_type are outside the alphabet.', 'DESIGN.md 3 C15'),
    'C07': ('input-enumerator',
            'exhaustive enumeration of snapshot points (every state entry, every pause placement, construction, end) x '
            'serialisation media x loaders over generated programs, save-load-save comparison on the real code',
            'Every generated Process program x input dictionary and a WorkChain with if/while/ctx is run on the '
            'deterministic loop under the default schedule and with one pause before every tick; at construction, every '
            'state entry, when paused and at the end a Bundle is taken and sent through deepcopy / pickle / yaml with the '
            'default or a custom loader (one that only resolves its own identifiers), loaded on a fresh loop, saved again and compared key by key; the loaded process '
            'must report the same pid, state, inputs, outputs, ctx, status, paused flag, creation time and outcome.',
            'Bundles are compared after mapping exceptions to (type, args) and dropping the traceback text; work chains '
            'waiting on in-memory futures cannot be saved and are excluded.', 'DESIGN.md 3 C07'),
    'C08': ('input-enumerator',
            'exhaustive enumeration of crash-point subsets (checkpoint, abandon, restore on a fresh loop) over generated '
            'Process programs and WorkChain outlines x decision sequences, differential against the uninterrupted run',
            'For every generated Process program and every WorkChain outline x decision sequence, every subset of <=M '
            'state-entry boundaries is taken as crash points: Bundle -> pickle (thorough: deepcopy, yaml) -> the running '
            'instance is abandoned by an exception out of the ENTERED callback -> unbundle on a fresh loop -> continue; '
            'executed steps (persisted trace and cross-instance log), outputs, ctx, final state and result must equal the '
            'uninterrupted run; every single boundary is also restored while another loop is the current one; for the outlines the '
            'checkpoint is also taken when the k-th step has returned and its state is being left, after spare checkpoints written '
            'at every state entry.',
            'Steps depend only on persisted state; checkpoints at state entry and right after construction; bounds M and '
            'families as reported in the evidence.', 'DESIGN.md 3 C08'),
    'C16': (SCHED, SCHED_TECH + '; twin executions at quiescent delivery points; exhaustive broadcast-fault enumeration',
            'A process attached to an in-process communicator (plain, and wrapped in LoopCommunicator) receives <=K RPC '
            'pause/play/kill/status messages and their broadcast variants (with and without a message text) at every placement between loop callbacks: each '
            'delivered message must become exactly one call of the matching control method with the matching arguments, the '
            'reply must end with what that call returned, status replies equal what the process reported, every transition '
            'is announced once, in order, by the pid, and a terminated process is unroutable, also after it was recreated from a checkpoint. With choice points only at '
            'quiescence every execution is repeated making the equivalent direct calls and all observations must be equal. '
            'For every transition index and each tolerated exception type the failing broadcast must not disturb the run.',
            'The communicator thread is modelled by loop callbacks landing at arbitrary queue positions; a real broker and '
            'OS-thread races are outside the explored space.', 'DESIGN.md 3 C16'),
    'C17': ('history-bfs',
            'explicit-state breadth-first search over launcher task histories replayed on a real ProcessLauncher on the '
            'deterministic loop, for every persister / loader / delivery-path configuration',
            'BFS (depth 2, thorough 3) over histories of create / launch / continue / bogus tasks - continue targets: '
            'checkpoints saved by the harness at two boundaries under two tags, processes created or launched earlier in '
            'the history, a missing tag, an unknown pid - for persister {none, in-memory, pickle} x loader {default, custom '
            'counting} x {awaiting the launcher directly, LoopCommunicator.task_send}; after every task: reply (pid / outputs '
            '/ error / TaskRejected), what was constructed, which steps ran and how often, what was persisted, whether the '
            'reply of a nowait task preceded termination, whether the configured loader was used.',
            'A communicator thread is modelled by loop callbacks; canonical state (persisted keys with what remains to run) '
            'is only used to prune.', 'DESIGN.md 3 C17'),
    'C18': (SCHED, SCHED_TECH,
            'Scenarios of 1-3 concurrently stepping processes (plain, launching a child from a step, executing a child '
            're-entrantly inside a step through the nested run_until_complete) with async steps on environment gates, '
            'scheduled callbacks and every lifecycle/pause/play/output hook (init and on_create included) overridden sample Process.current(); also a '
            'never-stepped process whose scheduled callback executes another one whose step pauses and plays it (three nesting levels) '
            'and a WAITING state class of the user\'s own; so do an '
            'observer task that is no process and the harness between callbacks. Every order and placement of the gate '
            'completions and resumes (plus one pause+play) is explored; every sample must be the executing process, or '
            'None outside of any process.',
            'Trusts VLoop, whose re-entrant run_until_complete sets the current task aside around each callback like '
            'nest_asyncio does.', 'DESIGN.md 3 C18'),
    'C19': ('input-enumerator',
            'bounded-exhaustive enumeration of Savable class shapes x member kinds x future states x loader configurations '
            'on the real save/load code',
            'Inheritance chains of auto_persist declarations over plain, bound-method, nested-Savable and SavableFuture '
            'members x future state x {default, global custom, per-save custom loader with/without load context, per-save '
            'loader that only resolves its own identifiers} are '
            'saved, the original mutated, and loaded again; restored members, absence of undeclared members, save-load-save '
            'identity, untouched parent classes, use of the recorded loader and ValueError for unknown identifiers are '
            'checked; declarations made through the decorator, the classmethod and the persist() hook in every order of '
            'first use, and classes that share a name, are covered as well.',
            'Member values are the small fixed ones of the generated classes.', 'DESIGN.md 3 C19'),
    'C20': (SCHED,
            'exhaustive enumeration of future chains x outcomes x completion orders, with every placement of the '
            'completions between loop callbacks explored by the prefix-replay DFS, on the real adapters',
            'Chains of futures of depth <=3 (thorough 4) where each level ends with a value, an exception, a cancellation '
            'or the next level are pushed through unwrap_kiwi_future (every completion order and attachment point), '
            'plum_to_kiwi_future+unwrap and Process._schedule_rpc on the deterministic loop (every order and placement), '
            'futures.create_task over coroutines awaiting 0-2 gates (ending with a value, an exception or a cancellation; also asked for by another thread while the loop '
            'sits idle: it must be scheduled through the call that wakes the loop), and every CancellableAction operation sequence of '
            'length <=3; the adapter must end with exactly the innermost outcome, once, and the wrapped function is '
            'called at most once.',
            'A callback delivered by a communicator thread is modelled as a loop callback at an arbitrary queue position; '
            'OS-thread races inside kiwipy/concurrent.futures are outside the explored space.', 'DESIGN.md 3 C20'),
}

ALL = [f'C{i:02d}' for i in range(1, 21)]


def main() -> None:
    checks = []
    for pid, (engine, technique, text, note, ref) in sorted(CHECKS.items()):
        checks.append({
            'property_id': pid,
            'quick_cmd': f'./check {pid} --tier quick',
            'thorough_cmd': f'./check {pid} --tier thorough',
            'evidence_file': f'/verif/evidence/{pid}.json',
            'replay_cmd_template': f'./check {pid} --replay {{path}}',
            'engine': engine,
            'level_claimed': {'category': 'model_checking', 'text': text, 'design_ref': ref},
            'level_note': note,
            'technique': technique,
        })
    manifest = {
        'version': 1,
        'setup_cmd': 'cd /verif && /venv/bin/python -m pv.selftest',
        'hooks': {
            'guard': 'PLUMPY_VERIF',
            'enable': 'none needed: the checks import plumpy from /repo/src as it is (PYTHONPATH), no hooks were added',
            'baseline_off_cmd': BASELINE,
            'source_commits': [],
            'add_only': True,
        },
        'engines': [
            {'name': 'schedule-explorer', 'path': 'pv/explore.py pv/vloop.py pv/ctl.py',
             'serves_properties': [p for p, c in sorted(CHECKS.items()) if c[0] == 'schedule-explorer'],
             'kind_free_text': 'stateless model checker (prefix-replay DFS, deviation budgets) over the implementation '
                               'running on a deterministic hand-stepped asyncio loop'},
            {'name': 'fault-enumerator', 'path': 'pv/props/c03.py',
             'serves_properties': [p for p, c in sorted(CHECKS.items()) if c[0] == 'fault-enumerator'],
             'kind_free_text': 'exhaustive single-fault injection at every reachable hook occurrence of every scenario'},
            {'name': 'history-bfs', 'path': 'pv/props/c14.py pv/props/c17.py',
             'serves_properties': [p for p, c in sorted(CHECKS.items()) if c[0] == 'history-bfs'],
             'kind_free_text': 'explicit-state BFS over operation histories replayed on fresh real objects, canonical-state '
                               'dedup, oracle after every operation'},
            {'name': 'input-enumerator', 'path': 'pv/props/*.py pv/ckpt.py',
             'serves_properties': [p for p, c in sorted(CHECKS.items()) if c[0] == 'input-enumerator'],
             'kind_free_text': 'bounded-exhaustive enumeration of programs / specs / inputs / crash points, each executed '
                               'on the implementation and compared with a small reference model'},
        ],
        'checks': checks,
        'not_applicable': [{'property_id': p, 'reason': 'check not built yet in this revision (planned, see DESIGN.md 7)'}
                           for p in ALL if p not in CHECKS],
        'notes': 'All checks explore the implementation itself; see DESIGN.md.',
    }
    with open(os.path.join(ROOT, 'MANIFEST.json'), 'w') as handle:
        json.dump(manifest, handle, indent=1)
        handle.write('\n')


if __name__ == '__main__':
    main()
