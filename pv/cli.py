# -*- coding: utf-8 -*-
"""Command line of the checks: ``python -m pv.cli <ID> [--tier quick|thorough] [--replay FILE] [--emit-test FILE]``."""
from __future__ import annotations

import argparse
import hashlib
import importlib
import json
import os
import sys
import time
from typing import Any, Dict, List

from . import evidence, findings

ROOT = os.path.dirname(os.path.dirname(os.path.abspath(__file__)))


def to_tuple(x: Any) -> Any:
    if isinstance(x, (list, tuple)):
        return tuple(to_tuple(i) for i in x)
    return x


def jsonable(x: Any) -> Any:
    return json.loads(json.dumps(x, default=repr))


def load_prop(pid: str) -> Any:
    return importlib.import_module(f'pv.props.{pid.lower()}')


def write_replay(pid: str, v: Dict[str, Any]) -> str:
    os.makedirs(os.path.join(ROOT, 'replays'), exist_ok=True)
    doc = {
        'property': pid, 'clause': v.get('clause'), 'features': jsonable(v.get('features', {})),
        'unit': jsonable(v.get('unit')), 'choices': v.get('choices'), 'labels': v.get('labels'),
        'detail': jsonable(v.get('detail')), 'case': jsonable(v.get('case')),
    }
    sha = hashlib.sha1(json.dumps(doc, sort_keys=True).encode()).hexdigest()[:8]
    path = os.path.join(ROOT, 'replays', f'{pid}-{sha}.json')
    with open(path, 'w') as handle:
        json.dump(doc, handle, indent=1)
        handle.write('\n')
    return path


def signature(vs: List[Dict[str, Any]]) -> List[Any]:
    return sorted((v.get('clause'), json.dumps(jsonable(v.get('features', {})), sort_keys=True)) for v in vs)


def replay(pid: str, path: str) -> int:
    mod = load_prop(pid)
    with open(path) as handle:
        doc = json.load(handle)
    runs = []
    for _ in range(2):
        runs.append(mod.replay(doc))
    if signature(runs[0]) != signature(runs[1]):
        print(f'NONDETERMINISM property={pid} replay={path}: two replays disagree')
        return 2
    want = (doc.get('clause'), json.dumps(doc.get('features', {}), sort_keys=True))
    got = signature(runs[0])
    for clause, feats in got:
        print(f'  violated clause={clause} features={feats}')
    if any(g[0] == want[0] for g in got):
        print(f'VIOLATION property={pid} replay={path}')
        return 1
    print(f'replay of {path}: recorded violation does not reproduce on this tree')
    return 0


TEST_TEMPLATE = '''# -*- coding: utf-8 -*-
"""Stand-alone replay of one recorded execution (no explorer involved): property {pid}, clause {clause}.

Run with:  PYTHONHASHSEED=0 PYTHONPATH={repo}/src:{root} /venv/bin/python -m pytest -q -p no:cacheprovider {name}
The test fails while the recorded violation reproduces on the tree under PYTHONPATH and passes once it is gone.
"""
import importlib
import json

RECORDED = json.loads({doc!r})


def test_recorded_execution_no_longer_violates_{pid_lower}():
    mod = importlib.import_module('pv.props.{pid_lower}')
    first = mod.replay(RECORDED)
    second = mod.replay(RECORDED)
    assert sorted(v['clause'] for v in first) == sorted(v['clause'] for v in second), 'replay is not deterministic'
    assert RECORDED['clause'] not in [v['clause'] for v in first], [v for v in first if v['clause'] == RECORDED['clause']][:1]
'''


def emit_test(pid: str, replay_path: str, out_path: str) -> int:
    with open(replay_path) as handle:
        doc = json.load(handle)
    text = TEST_TEMPLATE.format(pid=pid, pid_lower=pid.lower(), clause=doc.get('clause'), doc=json.dumps(doc),
                                repo=os.environ.get('PV_REPO', '/repo'), root=ROOT, name=os.path.basename(out_path))
    with open(out_path, 'w') as handle:
        handle.write(text)
    print(f'wrote {out_path}')
    return 0


def main(argv: List[str] | None = None) -> int:
    parser = argparse.ArgumentParser()
    parser.add_argument('property')
    parser.add_argument('--tier', default=os.environ.get('VERIF_TIER', 'quick'), choices=['quick', 'thorough'])
    parser.add_argument('--replay')
    parser.add_argument('--workers', type=int, default=int(os.environ.get('VERIF_WORKERS', '0')) or None)
    parser.add_argument('--no-evidence', action='store_true')
    parser.add_argument('--emit-test', help='with --replay: write a stand-alone pytest file that replays the recorded execution')
    args = parser.parse_args(argv)
    pid = args.property.upper()
    seed = int(os.environ.get('VERIF_SEED', '0') or 0)
    if args.replay and args.emit_test:
        return emit_test(pid, os.path.abspath(args.replay), args.emit_test)
    if args.replay:
        return replay(pid, args.replay)

    mod = load_prop(pid)
    t0 = time.time()
    out = mod.run_check(args.tier, seed, args.workers)
    wall = time.time() - t0

    known = findings.load()
    unmatched: List[Dict[str, Any]] = []
    matched: Dict[str, Dict[str, Any]] = {}
    matched_counts: Dict[str, int] = {}
    for v in out['violations']:
        f = findings.classify(pid, v, known)
        if f is None:
            unmatched.append(v)
        else:
            matched[f['id']] = f
            matched_counts[f['id']] = matched_counts.get(f['id'], 0) + 1
    rc = 0
    lines: List[str] = []
    for err in out.get('errors', []):
        lines.append(f'ERROR property={pid} {err}')
        rc = 2
    replay_paths = []
    # confirm determinism of what is about to be reported
    reported = 0
    for v in unmatched:
        if reported >= 12:
            break
        if hasattr(mod, 'replay') and v.get('unit') is not None or v.get('case') is not None:
            doc = {'unit': jsonable(v.get('unit')), 'choices': v.get('choices'), 'case': jsonable(v.get('case')),
                   'clause': v.get('clause'), 'features': jsonable(v.get('features', {}))}
            try:
                from . import explore
                with explore.watchdog(6 * explore.WATCHDOG_S):
                    again = mod.replay(doc)
            except explore.Hang:
                # the re-execution does not finish either: that is the reproduction of a hang (and of anything else it
                # would have shown afterwards)
                again = [v]
            except Exception as exc:  # noqa: BLE001 - a harness defect must not hide what was found
                lines.append(f'ERROR property={pid} re-execution of a violation raised {exc!r} (clause={v.get("clause")})')
                rc = 2
                again = [v]
            if not any(a.get('clause') == v.get('clause') for a in again):
                lines.append(f'NONDETERMINISM property={pid} clause={v.get("clause")}: violation did not reproduce on '
                             f're-execution ({jsonable(v.get("unit"))}, {v.get("choices")})')
                rc = 2
                continue
        path = write_replay(pid, v)
        replay_paths.append(path)
        lines.append(f'VIOLATION property={pid} replay={path}')
        lines.append(f'  clause={v.get("clause")} features={json.dumps(jsonable(v.get("features", {})), sort_keys=True)} '
                     f'detail={jsonable(v.get("detail"))!r}')
        reported += 1
        rc = max(rc, 1)
    for fid, f in sorted(matched.items()):
        lines.append(f'KNOWN-FINDING: property={pid} {f["id"]} clause={f["clause"]} {f["what"]} '
                     f'[{matched_counts[fid]} distinct signatures]')
    for f in known:
        if f['property'] == pid and f['id'] not in matched and out.get('complete', True):
            lines.append(f'NOTE property={pid} listed finding {f["id"]} did not reproduce in this run')

    cov = out['coverage']
    cov.setdefault('known_findings_matched', sorted(matched))
    cov.setdefault('unmatched_violation_signatures', len(unmatched))
    if not args.no_evidence:
        evidence.write(pid, args.tier, seed, out.get('level', 'model_checking'), cov, out.get('assumptions', []), wall,
                       len(unmatched), extra={'replays': replay_paths, 'bounds': out.get('bounds')})
    for line in lines:
        print(line)
    print(f'{pid} tier={args.tier} seed={seed} executions={cov.get("evaluations")} states={cov.get("states")} '
          f'transitions={cov.get("transitions")} violations={len(unmatched)} known={len(matched)} '
          f'exhaustive={cov.get("exhaustive")} wall={wall:.1f}s')
    return rc


if __name__ == '__main__':
    sys.exit(main())
