# -*- coding: utf-8 -*-
"""C12 - outputs are stored only if valid; success requires spec-conforming outputs (DESIGN.md 3, C12).

Bounded-exhaustive: output specs x every sequence of <=2 (thorough 3) emissions (path, value) x final return, each on a
fresh Process class, and every pair (emission of a first process, emission of a second process of the same class);
compared with ``pv.refports``.
"""
from __future__ import annotations

import copy
import itertools
import multiprocessing as mp
import os
from typing import Any, Dict, Iterator, List, Optional, Tuple

import plumpy
from plumpy import ports as pports

from .. import explore
from .. import refports as R
from ..refports import NODEFAULT
from ..vloop import VLoop

ID = 'C12'
VALUES = (1, 'a', -1, '', ())  # '' = a falsy value of the wrong type for int ports and int-typed namespaces; () = the empty tuple
FINALS = (('ret', None), ('ret', 5), ('unsucc', 3))
# the Stop command with either flag: only next to sequences of at most one emission
STOP_FINALS = (('stop', 5, True), ('stop', 5, False))
FINAL_RESULT = {('ret', None): (None, True), ('ret', 5): (5, True), ('unsucc', 3): (3, False),
                ('stop', 5, True): (5, True), ('stop', 5, False): (5, False)}


def out_ports() -> List[tuple]:
    return [('port', req, t, NODEFAULT, v) for req in (True, False) for t in (None, 'int', 'str') for v in (None, 'neg')]


SMALL = (('port', True, None, NODEFAULT, None), ('port', False, 'int', NODEFAULT, None), ('port', False, 'str', NODEFAULT, 'neg'))


def specs(tier: str) -> List[tuple]:
    out: List[tuple] = []
    for p in out_ports():
        for dyn in ('static', 'dynamic', 'dynamic_int'):
            out.append(('ns', True, dyn, True, None, (('x', p),)))
        out.append(('ns', True, 'static', True, 'nsbad', (('x', p),)))
    for p, q in itertools.product(SMALL, repeat=2):
        out.append(('ns', True, 'static', True, None, (('x', p), ('y', q))))
    inner = [()] + [(('x', p),) for p in SMALL] + [(('x', SMALL[0]), ('y', SMALL[2]))]
    for entries in inner:
        for req in (True, False):
            for dyn in ('static', 'dynamic', 'dynamic_int'):
                for val in (None, 'nsbad'):
                    sub = ('ns', req, dyn, True, val, entries)
                    out.append(('ns', True, 'static', True, None, (('n', sub),)))
                    if tier != 'quick' or (val is None and req):
                        out.append(('ns', True, 'dynamic', True, None, (('x', SMALL[1]), ('n', sub))))
    return out


def paths_for(desc: tuple) -> List[str]:
    """Declared leaf ports, plus undeclared names at every namespace level and one level below."""
    out: List[str] = []

    def walk(e: tuple, prefix: str) -> None:
        for name, sub in e[5]:
            if R.is_port(sub):
                out.append(prefix + name)
            else:
                out.append(prefix + name)  # a (scalar) value emitted to the name of a namespace
                walk(sub, prefix + name + '.')
        out.append(prefix + 'u')
        out.append(prefix + 'u.v')
        # below an undeclared name, names that are declared one level up (they mean nothing there)
        for name, sub in e[5]:
            out.append(prefix + 'u.' + name)
            if not R.is_port(sub):
                out.append(prefix + 'u.' + name + '.v')

    walk(desc, '')
    return out


def model_out(desc: tuple, path: str, value: Any) -> Tuple[bool, str]:
    """(accepted?, reason class) for one emission, by the statement: the port's type and validator, or - for an
    undeclared name - a dynamic namespace and its value type; namespaces created on the way inherit from their parent."""
    parts = path.split('.')
    ns = desc
    for seg in parts[:-1]:
        entry = dict(ns[5]).get(seg)
        if entry is None:
            if ns[2] == 'static':
                return False, 'path'
            ns = ('ns', ns[1], ns[2], ns[3], ns[4], ())  # dynamically created, inherits the parent's properties
        elif R.is_port(entry):
            return False, 'path'
        else:
            ns = entry
    entry = dict(ns[5]).get(parts[-1])
    if entry is None:
        if ns[2] == 'static':
            return False, 'path'
        if ns[2] == 'dynamic_int' and not isinstance(value, int):
            return False, 'value'
        return True, ''
    if not R.is_port(entry):
        return False, 'path'
    if not R.check_type(value, entry[2]):
        return False, 'value'
    if entry[4] == 'neg' and R.port_validator(value, None) is not None:
        return False, 'value'
    return True, ''


def store(outputs: Dict[str, Any], path: str, value: Any) -> None:
    parts = path.split('.')
    cur = outputs
    for seg in parts[:-1]:
        cur = cur.setdefault(seg, {})
    cur[parts[-1]] = value


def build_namespace(namespace: pports.PortNamespace, desc: tuple) -> None:
    for name, e in desc[5]:
        if R.is_port(e):
            namespace[name] = pports.OutputPort(name, required=e[1], valid_type=R.TYPES[e[2]],
                                                validator=R.port_validator if e[4] else None)
        else:
            sub = pports.PortNamespace(name, required=e[1], dynamic=e[2] != 'static',
                                       valid_type=int if e[2] == 'dynamic_int' else None,
                                       validator=R.ns_validator if e[4] else None)
            namespace[name] = sub
            build_namespace(sub, e)


class Recorder(plumpy.ProcessListener):
    def __init__(self) -> None:
        super().__init__()
        self.emitted: List[Tuple[str, Any]] = []

    def on_output_emitted(self, process: Any, output_port: str, value: Any, dynamic: bool) -> None:
        self.emitted.append((output_port, value))


def make_proc_class(desc: tuple, cell: Dict[str, Any]) -> type:
    """A Process class for the output spec ``desc``; what an instance emits and returns is read from ``cell`` when it runs
    (so that one class can be used for several processes)."""

    class Proc(plumpy.Process):
        @classmethod
        def define(cls, spec: Any) -> None:
            super().define(spec)
            top = spec.outputs
            top.dynamic = desc[2] != 'static'
            if desc[2] == 'dynamic_int':
                top.valid_type = int
            if desc[4]:
                top.validator = R.ns_validator
            build_namespace(top, desc)

        def run(self) -> Any:
            log, final = cell['log'], cell['final']
            for path, value in cell['emissions']:
                before = copy.deepcopy(self.outputs)
                try:
                    self.out(path, value)
                    log.append(('ok', None, before, copy.deepcopy(self.outputs)))
                except Exception as exc:  # noqa: BLE001 - recorded and judged below
                    log.append(('raised', exc, before, copy.deepcopy(self.outputs)))
            if final[0] == 'unsucc':
                return plumpy.UnsuccessfulResult(final[1])
            if final[0] == 'stop':
                from plumpy import process_states
                return process_states.Stop(final[1], final[2])
            return final[1]

    return Proc


def run_case(desc: tuple, emissions: tuple, final: tuple, loop: VLoop, earlier: Optional[tuple] = None) -> List[dict]:
    """One process of a fresh class.  With ``earlier`` (a sequence of emissions) another process of the same class has
    emitted those before: what this process may store must not depend on it."""
    violations: List[dict] = []
    log: List[Any] = []
    cell: Dict[str, Any] = {'emissions': emissions, 'final': final, 'log': log}
    Proc = make_proc_class(desc, cell)
    case = {'spec': desc, 'emissions': emissions, 'final': final}
    extra_feats: Dict[str, Any] = {}
    if earlier is not None:
        case['earlier'] = earlier
        extra_feats['after_earlier_process_of_the_class'] = True
        cell.update(emissions=earlier, final=FINALS[1], log=[])
        loop.ticks = 0
        first = Proc(pid='c12-first', loop=loop)
        loop.create_task(first.step_until_terminated())
        loop.drain()
        cell.update(emissions=emissions, final=final, log=log)

    def violate(clause: str, detail: Any = None, **feats: Any) -> None:
        feats.update(extra_feats)
        violations.append({'clause': clause, 'features': feats, 'detail': detail, 'case': case})

    loop.ticks = 0  # the loop is shared by all cases of a spec; the horizon is per case
    proc = Proc(pid='c12', loop=loop)
    rec = Recorder()
    proc.add_process_listener(rec)
    cleanups: List[int] = []
    proc.add_cleanup(lambda: cleanups.append(1))
    loop.create_task(proc.step_until_terminated())
    loop.drain()
    model_outputs: Dict[str, Any] = {}
    stored: List[Tuple[str, Any]] = []
    for (path, value), entry in zip(emissions, log):
        ok, why = model_out(desc, path, value)
        kind = 'dynamic' if path.split('.')[-1] in ('u', 'v') else 'declared'
        if ok:
            store(model_outputs, path, value)
            stored.append((path, value))
        if entry[0] == 'ok' and not ok:
            violate('stores-what-spec-rejects', {'path': path, 'value': value}, reason=why, port=kind)
        elif entry[0] == 'raised' and ok:
            violate('rejects-what-spec-accepts', {'path': path, 'value': value, 'exc': repr(entry[1])}, port=kind)
        elif entry[0] == 'raised':
            if entry[3] != entry[2]:
                violate('outputs-changed-by-rejected-emission', {'before': entry[2], 'after': entry[3]}, port=kind)
            if why == 'value' and not isinstance(entry[1], ValueError):
                violate('rejected-value-not-valueerror', repr(entry[1]), port=kind, exc=type(entry[1]).__name__)
        if entry[3] != model_outputs and not any(v['clause'].startswith(('stores', 'rejects')) for v in violations):
            violate('outputs-differ', {'got': entry[3], 'want': copy.deepcopy(model_outputs)}, port=kind)
    if len(log) != len(emissions):
        violate('run-aborted', {'log': len(log)})
    if violations:
        return violations
    if rec.emitted != stored:
        violate('listener-emissions-differ', {'got': rec.emitted, 'want': stored})
    if proc.state != plumpy.ProcessState.FINISHED:
        violate('not-finished', {'state': str(proc.state), 'exception': repr(proc.exception())}, state=str(proc.state))
        return violations
    want_result, ret_ok = FINAL_RESULT[final]
    try:
        R.validate(desc, copy.deepcopy(model_outputs))
        valid = True
    except R.Rejected:
        valid = False
    if proc.result() != want_result:
        violate('result-not-preserved', {'got': proc.result(), 'want': want_result}, valid_outputs=valid)
    want_success = ret_ok and valid
    if proc.is_successful != want_success or proc.successful() != want_success:
        violate('success-flag', {'got': proc.is_successful, 'want': want_success, 'outputs': model_outputs},
                valid_outputs=valid, returned_successful=ret_ok)
    if proc.future().result() != proc.outputs or proc.outputs != model_outputs:
        violate('future-or-outputs-differ', {'future': proc.future().result(), 'outputs': proc.outputs, 'want': model_outputs})
    return violations


def emission_seqs(desc: tuple, max_len: int) -> Iterator[tuple]:
    single = [(p, v) for p in paths_for(desc) for v in VALUES]
    def conflict(seq: tuple) -> bool:
        ps = [e[0] for e in seq]
        return any(a != b and (b.startswith(a + '.') or a.startswith(b + '.')) for a in ps for b in ps)

    yield ()
    for n in range(1, max_len + 1):
        if n <= 2:
            for seq in itertools.product(single, repeat=n):
                if not conflict(seq):  # a value and a namespace under the same name: outside the alphabet
                    yield seq
        else:
            # length 3: a third emission only after two accepted ones on different paths
            for a, b in itertools.product(single, repeat=2):
                if a[0] != b[0] and model_out(desc, *a)[0] and model_out(desc, *b)[0]:
                    for c in single:
                        if not conflict((a, b, c)):
                            yield (a, b, c)


def check_spec(args: Tuple[tuple, int]) -> Dict[str, Any]:
    desc, max_len = args
    out: Dict[str, Any] = {'n': 0, 'violations': [], 'nontrivial': 0}
    loop = VLoop()
    loop.install()
    try:
        for emissions in emission_seqs(desc, max_len):
            for final in FINALS + (STOP_FINALS if len(emissions) <= 1 else ()):
                if len(emissions) == 2 and final != FINALS[1] and emissions[0][0] == emissions[1][0]:
                    continue
                out['n'] += 1
                try:
                    vs = explore.guarded_case({'spec': desc, 'emissions': emissions, 'final': final}, run_case, desc, emissions, final, loop)
                except Exception as exc:  # noqa: BLE001
                    vs = [{'clause': 'harness-raised', 'features': {'exc': type(exc).__name__}, 'detail': repr(exc),
                           'case': {'spec': desc, 'emissions': emissions, 'final': final}}]
                oks = [model_out(desc, p, v)[0] for p, v in emissions]
                if any(oks) and not all(oks):
                    out['nontrivial'] += 1
                if len(out['violations']) < 40:
                    out['violations'].extend(vs[:3])
        # two processes of one class: every single emission after every single emission of an earlier process
        single = [(p, v) for p in paths_for(desc) for v in VALUES[:2]]
        for e1 in single:
            for e2 in single:
                out['n'] += 1
                out['pairs'] = out.get('pairs', 0) + 1
                case = {'spec': desc, 'emissions': (e2,), 'final': FINALS[1], 'earlier': (e1,)}
                try:
                    vs = explore.guarded_case(case, run_case, desc, (e2,), FINALS[1], loop, (e1,))
                except Exception as exc:  # noqa: BLE001
                    vs = [{'clause': 'harness-raised', 'features': {'exc': type(exc).__name__}, 'detail': repr(exc), 'case': case}]
                if model_out(desc, *e1)[0] and e1[0] != e2[0]:
                    out['nontrivial'] += 1
                if len(out['violations']) < 60:
                    out['violations'].extend(vs[:3])
    finally:
        loop.shutdown()
    return out


def run_check(tier: str, seed: int, workers: Any) -> Dict[str, Any]:
    all_specs = specs(tier)
    max_len = 2 if tier == 'quick' else 3
    k = seed % len(all_specs)
    jobs = [(d, max_len) for d in all_specs[k:] + all_specs[:k]]
    total: Dict[str, Any] = {'n': 0, 'violations': [], 'nontrivial': 0}
    with mp.get_context('fork').Pool(workers or min(16, os.cpu_count() or 1)) as pool:
        for res in pool.imap_unordered(check_spec, jobs, chunksize=2):
            total['n'] += res['n']
            total['nontrivial'] += res['nontrivial']
            total['violations'].extend(res['violations'])
    best: Dict[Any, Any] = {}
    for v in total['violations']:
        key = (v['clause'], repr(sorted(v['features'].items())))
        size_key = (len(repr(v['case'])), repr(v['case']))
        if key not in best or size_key < best[key][0]:
            best[key] = (size_key, v)
    violations = [v for _, v in sorted(best.values(), key=lambda x: x[0])]
    sample = all_specs[(seed * 7919 + 3) % len(all_specs)]
    coverage = {
        'evaluations': total['n'], 'distinct_nontrivial': total['nontrivial'], 'states': len(all_specs),
        'transitions': total['n'], 'traces_validated_against_impl': total['n'],
        'rule': 'output specs = every OutputPort attribute combination under static/dynamic/typed-dynamic/validated top '
                'levels, port pairs, a nested namespace over required x static/dynamic/typed x validator with 0-2 ports '
                '(also next to a port under a dynamic top level) x every sequence of <= '
                f'{max_len} emissions over (declared leaf paths + undeclared u and u.v at every level) x values '
                '{1,"a",-1} x final return {None, 5, UnsuccessfulResult(3)}; a fresh class per run; plus, for every spec, every '
                'single emission by a second process of a class whose first process made any single emission (values 1, "a"); '
                'non-trivial = a sequence with an accepted and a rejected emission',
        'samples': [{'spec': repr(sample), 'emissions': repr(list(itertools.islice(emission_seqs(sample, 2), 5, 6)))}],
        'exhaustive': True,
    }
    return {'violations': violations, 'coverage': coverage, 'errors': [], 'level': 'model_checking',
            'assumptions': ['outside the alphabet: emitting a mapping, a path through a leaf port', 'the reference model (pv/refports.py) is written from the statement'],
            'bounds': {'tier': tier, 'specs': len(all_specs), 'max_emissions': max_len}}


def replay(doc: Dict[str, Any]) -> List[dict]:
    from ..cli import to_tuple
    case = doc['case']
    loop = VLoop()
    loop.install()
    try:
        earlier = to_tuple(case['earlier']) if case.get('earlier') is not None else None
        return run_case(to_tuple(case['spec']), to_tuple(case['emissions']), to_tuple(case['final']), loop, earlier)
    finally:
        loop.shutdown()
