# -*- coding: utf-8 -*-
"""C07 - save, load, save again yields the same bundle and the same observable process (DESIGN.md 3, C07).

Every generated Process / WorkChain program is run on a VLoop under the default schedule and under every placement of one
pause request; a bundle is taken right after construction, at every state entry, whenever the process is paused and at
the end. Each bundle goes through {deepcopy, pickle, yaml} x {default loader, custom loader in the save context} at once
(bundles may alias live objects), is loaded on a fresh loop, saved again and compared key by key.
"""
from __future__ import annotations

import asyncio
import copy
import itertools
import multiprocessing as mp
import os
import sys
from typing import Any, Dict, List, Optional, Tuple

import plumpy
from plumpy import loaders, persistence, process_states
from plumpy import workchains as wc
from plumpy.base import state_machine

from .. import ckpt, programs
from ..ckpt import PS, through
from ..vloop import Horizon, VLoop
from .c19 import CountingLoader, StrictLoader

ID = 'C07'
MEDIA = ('pickle', 'deepcopy', 'yaml')
LOADERS = ('default', 'custom')


class InBase(plumpy.Process):
    """Base of the generated programs: declared, defaulted, namespaced and dynamic inputs; nested / dynamic outputs."""

    @classmethod
    def define(cls, spec: Any) -> None:
        super().define(spec)
        spec.input('a', valid_type=int, default=5)
        spec.input('b', required=False)
        spec.input_namespace('ns', dynamic=True)
        spec.input('ns.x', default='nx')
        spec.inputs.dynamic = True
        spec.output_namespace('on', dynamic=True)
        spec.outputs.dynamic = True

    # the documented hooks for putting inputs / outputs into a bundle: a real (invertible, non-identity) codec
    def encode_input_args(self, inputs: Any) -> Any:
        return {'encoded-by-hook': copy.deepcopy(inputs)}

    def decode_input_args(self, encoded: Any) -> Any:
        return copy.deepcopy(encoded['encoded-by-hook'])


INPUTS: Tuple[Optional[dict], ...] = (None, {'b': [1, {'k': 'v'}]}, {'a': 9, 'ns': {'x': 'given', 'dyn': 3}, 'extra': {'deep': {'er': 1}}})


class WcBase(plumpy.WorkChain):
    @classmethod
    def define(cls, spec: Any) -> None:
        super().define(spec)
        spec.input('a', valid_type=int, default=5)
        spec.inputs.dynamic = True
        spec.outputs.dynamic = True
        spec.outline(
            cls.s0,
            wc.if_(cls.is_big)(cls.s1, cls.s2).elif_(cls.is_mid)(cls.s3).else_(cls.s4),
            wc.while_(cls.again)(cls.s5, wc.if_(cls.odd)(cls.s6)),
            cls.s7,
        )

    def _note(self, name: str) -> None:
        self.ctx.trace = self.ctx.get('trace', []) + [name]
        self.ctx.nested = {'last': name, 'n': len(self.ctx.trace)}

    def s0(self) -> None:
        self._note('s0')
        self.ctx.count = 0
        self.out('first', self.inputs.a)

    def is_big(self) -> bool:
        return self.inputs.a > 8

    def is_mid(self) -> bool:
        return self.inputs.a > 4

    def s1(self) -> None:
        self._note('s1')

    def s2(self) -> None:
        self._note('s2')
        self.set_status('in s2')

    def s3(self) -> None:
        self._note('s3')

    def s4(self) -> None:
        self._note('s4')

    def again(self) -> bool:
        return self.ctx.count < 2

    def s5(self) -> None:
        self._note('s5')
        self.ctx.count += 1

    def odd(self) -> bool:
        return self.ctx.count % 2 == 1

    def s6(self) -> None:
        self._note('s6')

    def s7(self) -> Any:
        self._note('s7')
        self.out('last', dict(self.ctx.nested))
        if self.inputs.a == 1:
            return 42
        return None


WC_INPUTS = ({'a': 9}, None, {'a': 1, 'dyn': {'x': 1}})


def canon(value: Any) -> Any:
    if isinstance(value, dict):
        return {k: canon(v) for k, v in value.items() if k != process_states.Excepted.TRACEBACK}
    if isinstance(value, (list, tuple, set, frozenset)):
        items = [canon(v) for v in value]
        return sorted(items, key=repr) if isinstance(value, (set, frozenset)) else items
    if isinstance(value, BaseException):
        return ('exc', type(value).__name__, value.args)
    if hasattr(value, 'items') and not isinstance(value, dict):
        return {k: canon(v) for k, v in value.items()}
    if isinstance(value, type):
        return f'{value.__module__}:{value.__qualname__}'
    return value


def plain(value: Any) -> Any:
    if value is None:
        return None
    if hasattr(value, 'items'):
        return {k: plain(v) for k, v in value.items()}
    return value


def observables(proc: Any) -> Dict[str, Any]:
    obs = {
        'pid': proc.pid, 'state': proc.state, 'raw_inputs': plain(proc.raw_inputs), 'inputs': plain(proc.inputs),
        'outputs': canon(proc.outputs), 'status': proc.status, 'paused': proc.paused, 'ctime': proc.creation_time,
    }
    if hasattr(proc, 'ctx'):
        obs['ctx'] = canon(dict(proc.ctx.__dict__))
    if hasattr(type(proc), 'PROGRAM'):  # the generated programs declare their step trace as a persisted member
        obs['trace'] = list(proc._trace)
    if proc.has_terminated():
        state = proc.state
        if state == PS.FINISHED:
            obs['outcome'] = ('FINISHED', repr(proc.result()), proc.successful())
        elif state == PS.KILLED:
            obs['outcome'] = ('KILLED', canon(proc.killed_msg()))
        else:
            exc = proc.exception()
            obs['outcome'] = ('EXCEPTED', type(exc).__name__, getattr(exc, 'args', None))
    return obs


class SnapWorld:
    """programs.ENV for C07 runs: takes the snapshots."""

    def __init__(self, medium: str, loader_mode: str) -> None:
        self.medium = medium
        self.loader_mode = loader_mode
        self.snaps: List[Tuple[str, Any, Dict[str, Any]]] = []
        self.errors: List[Tuple[str, str]] = []
        self.trace: List[tuple] = []
        self.raised: List[BaseException] = []
        self.gates: Dict[int, asyncio.Future] = {}
        self.loop: Optional[VLoop] = None
        self.pre_pause_status = None
        self.n_choice = 0
        self.custom = StrictLoader()  # knows its own identifiers only
        self.lenient = CountingLoader()  # (handed over explicitly when loading: then it is asked for everything)

    def save_ctx(self) -> Optional[persistence.LoadSaveContext]:
        return persistence.LoadSaveContext(loader=self.custom) if self.loader_mode == 'custom' else None

    def snap(self, proc: Any, label: str) -> None:
        try:
            bundle = through(persistence.Bundle(proc, self.save_ctx()), self.medium)
        except Exception as exc:  # noqa: BLE001
            self.errors.append((label, f'{type(exc).__name__}: {exc}'))
            return
        self.snaps.append((label, bundle, observables(proc)))

    def attach(self, proc: Any) -> None:
        self.proc = proc
        proc.add_state_event_callback(state_machine.StateEventHook.ENTERED_STATE,
                                      lambda sm, hook, frm: self.snap(sm, f'entered:{sm.state.value}'))

    def record(self, proc: Any, name: str, args: tuple, kwargs: dict, phase: str) -> None:
        if phase == 'enter':
            proc._trace.append((name, tuple(args), tuple(sorted(kwargs.items()))))

    def gate(self, proc: Any, idx: int) -> asyncio.Future:
        fut = self.loop.create_future()  # type: ignore[union-attr]
        self.gates[idx] = fut
        return fut

    def logged_call(self, proc: Any, op: str, args: tuple, origin: str = 'env') -> dict:
        getattr(proc, op)(*args)
        return {}


def run_and_snapshot(cls: type, inputs: Optional[dict], pause_at: Optional[int], medium: str, loader_mode: str,
                     is_generated: bool) -> Tuple[SnapWorld, int]:
    world = SnapWorld(medium, loader_mode)
    loop = VLoop(horizon=3000)
    world.loop = loop
    loop.install()
    prev, programs.ENV = programs.ENV, world
    ticks = 0
    try:
        # with some inputs the pid is left to the library (a UUID, which has its own YAML representation)
        proc = cls(inputs=copy.deepcopy(inputs), pid=None if inputs and 'b' in inputs else 'p7', loop=loop)
        if not is_generated:
            world.attach(proc)
        world.snap(proc, 'constructed')
        loop.create_task(proc.step_until_terminated())
        paused_snapped = False
        for _ in range(400):
            if pause_at is not None and ticks == pause_at and not proc.has_terminated():
                proc.pause('pause-msg' if pause_at % 2 else None)
                pause_at = None
            progressed = loop.tick()
            if progressed:
                ticks += 1
            if proc.paused and not paused_snapped and not proc.has_terminated():
                world.snap(proc, 'paused')
                paused_snapped = True
            if progressed:
                continue
            if proc.has_terminated():
                break
            pending = [g for g, f in sorted(world.gates.items()) if not f.done()]
            if pending:
                world.gates[pending[0]].set_result(f'g{pending[0]}')
            elif proc.paused:
                proc.play()
            elif proc.state == PS.WAITING:
                proc.resume('resumed')
            else:
                break
        world.snap(proc, 'end')
        world.final_state = proc.state
    finally:
        programs.ENV = prev
        loop.shutdown()
    return world, ticks


def verify(world: SnapWorld, with_load_ctx_loader: bool) -> List[Tuple[str, Dict[str, Any], Any]]:
    """Load every snapshot on a fresh loop, save again, compare.  Returns (clause, features, detail) triples."""
    found: List[Tuple[str, Dict[str, Any], Any]] = []
    for label, bundle, obs in world.snaps:
        loop = VLoop()
        loop.install()
        try:
            ctx = persistence.LoadSaveContext(loop=loop, loader=world.lenient) if with_load_ctx_loader else \
                persistence.LoadSaveContext(loop=loop)
            try:
                loaded = bundle.unbundle(ctx)
            except Exception as exc:  # noqa: BLE001
                found.append(('load-raised', {'at': label, 'exc': type(exc).__name__}, repr(exc)))
                continue
            try:
                again = persistence.Bundle(loaded, world.save_ctx())
            except Exception as exc:  # noqa: BLE001
                found.append(('second-save-raised', {'at': label, 'exc': type(exc).__name__}, repr(exc)))
                continue
            a, b = canon(dict(bundle)), canon(dict(again))
            if a != b:
                keys = sorted(k for k in set(a) | set(b) if a.get(k) != b.get(k))
                found.append(('bundle-differs', {'at': label, 'key': keys[0] if keys else '?'},
                              {'keys': keys, 'first': a.get(keys[0]) if keys else None, 'second': b.get(keys[0]) if keys else None}))
            got = observables(loaded)
            if got != obs:
                keys = sorted(k for k in set(got) | set(obs) if got.get(k) != obs.get(k))
                found.append(('observable-differs', {'at': label, 'what': keys[0] if keys else '?'},
                              {k: {'loaded': got.get(k), 'original': obs.get(k)} for k in keys}))
            loaded.close()
        finally:
            loop.shutdown()
    for label, err in world.errors:
        found.append(('save-raised', {'at': label, 'exc': err.split(':')[0]}, err))
    return found


def program_cases(tier: str) -> List[tuple]:
    kinds = ('S', 'Y1')
    progs = list(programs.linear_programs(2, kinds, ('cont_a', 'wait_d', 'cont', 'wait'), ('ret', 'ret_none', 'unsucc', 'stop_f', 'killcmd', 'raise')))
    small = list(programs.linear_programs(2, ('S', 'Y1'), ('cont_a', 'wait_d'), ('ret',)))
    progs += list(programs.with_actions(small, ('out', 'status')))
    # outputs / a status set before the process is killed or fails: the terminal snapshots must carry them too
    ending_badly = list(programs.linear_programs(2, ('S', 'Y1'), ('cont', 'wait_d'), ('raise', 'killcmd', 'unsucc')))
    progs += list(programs.with_actions(ending_badly, ('out', 'status'), wheres=('pre',)))
    if tier != 'quick':
        progs += list(programs.linear_programs(3, ('S', 'G'), ('cont_a', 'wait_d'), ('ret', 'raise'), min_len=3))
    cases = []
    for i, p in enumerate(progs):
        for j, inputs in enumerate(INPUTS):
            if tier == 'quick' and (i + j) % 3 and j:
                continue
            cases.append(('P', p, j))
    for j in range(len(WC_INPUTS)):
        cases.append(('W', None, j))
    from . import c08
    for unit in c08.outlines_b(tier):
        cases.append(('O', unit, 0))
    return cases


def check_case(case: tuple, media: Tuple[str, ...], full: bool) -> Dict[str, Any]:
    kind, program, j = case
    out: Dict[str, Any] = {'n': 0, 'violations': [], 'snapshots': 0, 'paused_snapshots': 0}
    if kind == 'P':
        cls = programs.make_class(program, InBase)
        inputs = INPUTS[j]
    elif kind == 'W':
        cls = WcBase
        inputs = WC_INPUTS[j]

    def add(found: List[Tuple[str, Dict[str, Any], Any]], medium: str, loader_mode: str, pause_at: Any, ctx_loader: bool) -> None:
        for clause, feats, detail in found:
            feats = dict(feats, medium=medium, loader=loader_mode + ('+ctx' if ctx_loader else ''), kind=kind)
            out['violations'].append({'clause': clause, 'features': feats, 'detail': detail,
                                      'case': {'kind': kind, 'program': program, 'inputs': j, 'medium': medium,
                                               'loader': loader_mode, 'pause_at': pause_at, 'ctx_loader': ctx_loader}})

    first = True
    if kind == 'O':
        return check_outline(program, media, out, add)
    for mi, medium in enumerate(media):
        # the order of the two loaders alternates: what one save leaves behind must not leak into the next
        for loader_mode in (LOADERS if mi % 2 else LOADERS[::-1]):
            if not full and loader_mode == 'custom' and medium != 'pickle':
                continue
            world, ticks = run_and_snapshot(cls, inputs, None, medium, loader_mode, kind == 'P')
            out['n'] += 1
            out['snapshots'] += len(world.snaps)
            add(verify(world, False), medium, loader_mode, None, False)
            if loader_mode == 'custom':
                add(verify(world, True), medium, loader_mode, None, True)
            if first or full:
                for pause_at in range(ticks + 1):
                    w2, _ = run_and_snapshot(cls, inputs, pause_at, medium, loader_mode, kind == 'P')
                    out['n'] += 1
                    out['snapshots'] += len(w2.snaps)
                    out['paused_snapshots'] += sum(1 for s in w2.snaps if s[0] == 'paused')
                    add(verify(w2, False), medium, loader_mode, pause_at, False)
            first = False
    out['violations'] = out['violations'][:12]
    return out


def check_outline(unit: tuple, media: Tuple[str, ...], out: Dict[str, Any], add: Any) -> Dict[str, Any]:
    """A WorkChain built from an outline of the C08/C09 family: every decision sequence, a snapshot at every state entry."""
    from .. import explore
    from . import c08, c09
    named = c09.name_ast(unit, c09.Names())
    klass, whiles = c08.build_wc(named)
    first = [True]

    def run(chooser: Any) -> Any:
        for medium in (media if first[0] else media[:1]):
            known: List[Any] = []
            prev, c08.ENV = c08.ENV, c08.Decisions(known, chooser if medium == media[0] else None, whiles)
            if medium != media[0]:
                c08.ENV.known = list(decisions)
            try:
                world, _ = run_and_snapshot(klass, None, None, medium, 'default', True)
            finally:
                c08.ENV = prev
            decisions = list(known) if medium == media[0] else decisions
            out['n'] += 1
            out['snapshots'] += len(world.snaps)
            found = verify(world, False)
            for clause, feats, detail in found:
                feats['kinds'] = c09.kinds_in(named)
                if isinstance(detail, dict):
                    detail = dict(detail, outline=c09.shape(named))
            add(found, medium, 'default', None, False)
        first[0] = False
        return explore.ExecResult()

    explore.dfs(run, {})
    out['violations'] = out['violations'][:12]
    return out


def _work(job: tuple) -> Dict[str, Any]:
    case, media, full = job
    from .. import explore
    try:
        with explore.watchdog(20 * explore.WATCHDOG_S):
            return check_case(case, media, full)
    except explore.Hang as hang:
        return {'n': 1, 'snapshots': 0, 'paused_snapshots': 0,
                'violations': [{'clause': 'hang', 'features': {'kind': case[0]}, 'detail': str(hang),
                                'case': {'kind': case[0], 'program': case[1], 'inputs': case[2]}}]}
    except Exception as exc:  # noqa: BLE001
        import traceback
        return {'n': 1, 'snapshots': 0, 'paused_snapshots': 0,
                'violations': [{'clause': 'harness-raised', 'features': {'exc': type(exc).__name__},
                                'detail': traceback.format_exc()[-600:], 'case': {'kind': case[0], 'program': case[1], 'inputs': case[2]}}]}


def run_check(tier: str, seed: int, workers: Any) -> Dict[str, Any]:
    cases = program_cases(tier)
    full = tier != 'quick'
    jobs = [(c, MEDIA, full) for c in cases]
    k = seed % len(jobs)
    jobs = jobs[k:] + jobs[:k]
    total: Dict[str, Any] = {'n': 0, 'violations': [], 'snapshots': 0, 'paused_snapshots': 0}
    with mp.get_context('fork').Pool(workers or min(16, os.cpu_count() or 1)) as pool:
        for res in pool.imap_unordered(_work, jobs, chunksize=2):
            for key in ('n', 'snapshots', 'paused_snapshots'):
                total[key] += res[key]
            total['violations'].extend(res['violations'])
    best: Dict[Any, Any] = {}
    for v in total['violations']:
        key = (v['clause'], repr(sorted(v['features'].items())))
        size_key = (len(repr(v['case'])), repr(v['case']))
        if key not in best or size_key < best[key][0]:
            best[key] = (size_key, v)
    violations = [v for _, v in sorted(best.values(), key=lambda x: x[0])]
    coverage = {
        'evaluations': total['snapshots'], 'distinct_nontrivial': total['paused_snapshots'], 'states': total['snapshots'],
        'transitions': total['n'], 'traces_validated_against_impl': total['n'], 'programs': len(cases),
        'rule': 'generated Process programs (sync/async steps, Continue with arguments, Wait with msg/data, outputs, status; '
                'finished / unsuccessful / killed / excepted) x 3 input dictionaries (none, declared, nested + dynamic) and a '
                'WorkChain with if/elif/else, while and ctx x 3 inputs, and every WorkChain outline of the C08 family x every decision sequence; run under the default schedule and with one pause '
                'before every tick; a bundle at construction, at every state entry, when paused and at the end x media '
                '{deepcopy, pickle, yaml} x loader {default, custom in the save context (with and without it in the load '
                'context)}; evaluations = snapshots round-tripped, non-trivial = snapshots taken while paused',
        'samples': [{'program': programs.describe(cases[0][1]) if cases[0][0] == 'P' else repr(cases[0][1]), 'inputs': repr(INPUTS[cases[0][2]]), 'media': list(MEDIA)}],
        'exhaustive': True,
    }
    return {'violations': violations, 'coverage': coverage, 'errors': [], 'level': 'model_checking',
            'assumptions': ['bundles are compared after mapping exceptions to (type, args) and dropping the traceback text',
                            'WorkChains waiting on in-memory futures cannot be saved at all and are not snapshotted'],
            'bounds': {'tier': tier, 'programs': len(cases)}}


def replay(doc: Dict[str, Any]) -> List[dict]:
    from ..cli import to_tuple
    c = doc['case']
    case = (c['kind'], to_tuple(c['program']) if c.get('program') is not None else None, c['inputs'])
    res = check_case(case, (c.get('medium') or 'pickle',), True)
    return res['violations']
