# -*- coding: utf-8 -*-
"""C09 - a WorkChain executes its outline as the structured program it denotes (DESIGN.md 3, C09).

Every outline AST up to a nesting depth / block size bound, and for each AST every sequence of predicate truth values
and step return values (explored with the prefix-replay DFS: each call of a predicate or step is a choice point), is run
on the implementation; the ordered call trace and the result are compared with a small reference interpreter.
"""
from __future__ import annotations

import itertools
from typing import Any, Dict, Iterator, List, Optional, Tuple

import plumpy
from plumpy import workchains as wc

from .. import explore, runner
from ..explore import Chooser, ExecResult
from ..vloop import Horizon, VLoop

ID = 'C09'
W = 2  # at most W true evaluations per while_ predicate in one run
CTX = '<ToContext()>'  # stands for an (empty) context assignment: like None it does not stop the chain
STEP_VALUES = (None, 0, 7, CTX)
RET_CODES = (None, 3)

# AST:  ('step',) | ('ret', code) | ('if', ((block), (block)...), else_block_or_None) | ('while', block)
# names are assigned in pre-order when the class is built.


def blocks_of(instrs: List[tuple], width: int) -> List[tuple]:
    out: List[tuple] = []
    for n in range(1, width + 1):
        out.extend(itertools.product(instrs, repeat=n))
    return out


LEAVES: List[tuple] = [('step',)] + [('ret', c) for c in RET_CODES]


def compounds(inner: List[tuple], max_cond: int, with_else: bool = True, else_from: int = 1) -> List[tuple]:
    """while_ and if_/elif_/else_ instructions whose bodies are taken from ``inner`` (a list of blocks)."""
    out: List[tuple] = [('while', body) for body in inner]
    for n_cond in range(1, max_cond + 1):
        for bodies in itertools.product(inner, repeat=n_cond):
            out.append(('if', bodies, None))
            if with_else and n_cond <= else_from:
                for els in inner:
                    out.append(('if', bodies, els))
    return out


def family(tier: str) -> List[tuple]:
    """The enumerated outlines (fixed, simplest-first order). Sizes are reported in the evidence."""
    units: List[tuple] = []
    step = ('step',)
    b01 = blocks_of(LEAVES, 1)  # 3 blocks of one leaf
    b02 = blocks_of(LEAVES, 2)  # 12 blocks of <=2 leaves
    max_cond = 2 if tier == 'quick' else 3
    # F0: flat outlines of <=3 leaves (a single leaf is not wrapped in a block by the library)
    units += blocks_of(LEAVES, 3)
    # F1: one compound (bodies of <=2 leaves, <=max_cond conditions, else after any of them) with optional neighbours
    c12 = compounds(b02, max_cond, else_from=max_cond)
    for x in c12:
        units += [(x,), (step, x), (x, step), (step, x, step)]
    # F2: two compounds in sequence (bodies of one leaf)
    c11 = compounds(b01, 2, else_from=2)
    units += [(x, y) for x in c11 for y in c11]
    # F3: depth 2 - a compound whose bodies are single compounds or leaves of F2's kind
    inner = [(x,) for x in LEAVES + c11]
    d2 = compounds(inner, 2, else_from=1)
    units += [(x,) for x in d2]
    # predicates answering 0 / 1 (truthiness, not identity with True)
    units += [('int-predicates', (x, y)) for x in c11 for y in c11[:8]]
    if tier != 'quick':
        units += [(step, x, step) for x in d2]
        # depth 2 with two-instruction bodies mixing a leaf and a compound
        inner2 = [(a, b) for a in LEAVES[:1] + c11[:12] for b in LEAVES[:2] + c11[:12]]
        units += [(x,) for x in compounds(inner2, 1)]
        # depth 3: single-instruction bodies all the way down
        d3 = compounds([(x,) for x in d2[:600]], 1)
        units += [(x,) for x in d3]
    return units


class Names:
    def __init__(self) -> None:
        self.steps = 0
        self.preds = 0

    def step(self) -> str:
        self.steps += 1
        return f's{self.steps - 1}'

    def pred(self) -> str:
        self.preds += 1
        return f'p{self.preds - 1}'


def name_ast(block: tuple, names: Names) -> tuple:
    """Attach names: ('step', name) ('ret', code) ('if', ((pred, block),...), else) ('while', pred, block)."""
    out = []
    for ins in block:
        if ins[0] == 'step':
            out.append(('step', names.step()))
        elif ins[0] == 'ret':
            out.append(ins)
        elif ins[0] == 'while':
            pred = names.pred()
            out.append(('while', pred, name_ast(ins[1], names)))
        else:
            conds = []
            for body in ins[1]:
                pred = names.pred()
                conds.append((pred, name_ast(body, names)))
            els = name_ast(ins[2], names) if ins[2] is not None else None
            out.append(('if', tuple(conds), els))
    return tuple(out)


ENV: Any = None


MAX_CALLS = 120  # far more than any outline of the family can make with W true evaluations per while_


class Runaway(KeyboardInterrupt):
    """The chain keeps calling steps / predicates without end."""


class _Run:
    def __init__(self, chooser: Chooser, whiles: set, int_predicates: bool = False) -> None:
        self.chooser = chooser
        self.calls: List[Tuple[str, Any]] = []
        self.true_count: Dict[str, int] = {}
        self.whiles = whiles
        self.int_predicates = int_predicates  # predicates answer 0 / 1 instead of False / True

    def predicate(self, name: str) -> bool:
        if len(self.calls) > MAX_CALLS:
            raise Runaway()
        if name in self.whiles and self.true_count.get(name, 0) >= W:
            value = False
        else:
            value = bool(self.chooser.choose([((name, False), ''), ((name, True), '')]))
            if value:
                self.true_count[name] = self.true_count.get(name, 0) + 1
        self.calls.append((name, value))
        return int(value) if self.int_predicates else value

    def step(self, name: str) -> Any:
        if len(self.calls) > MAX_CALLS:
            raise Runaway()
        value = STEP_VALUES[self.chooser.choose([((name, v), '') for v in STEP_VALUES])]
        self.calls.append((name, value))
        return wc.ToContext() if value == CTX else value


def build_class(named: tuple) -> Tuple[type, set]:
    ns: Dict[str, Any] = {}
    whiles: set = set()

    def mk_step(name: str) -> Any:
        def fn(self: Any) -> Any:
            return ENV.step(name)
        fn.__name__ = name
        return fn

    def mk_pred(name: str) -> Any:
        def fn(self: Any) -> Any:
            return ENV.predicate(name)
        fn.__name__ = name
        return fn

    def collect(block: tuple) -> None:
        for ins in block:
            if ins[0] == 'step':
                ns[ins[1]] = mk_step(ins[1])
            elif ins[0] == 'while':
                ns[ins[1]] = mk_pred(ins[1])
                whiles.add(ins[1])
                collect(ins[2])
            elif ins[0] == 'if':
                for pred, body in ins[1]:
                    ns[pred] = mk_pred(pred)
                    collect(body)
                if ins[2] is not None:
                    collect(ins[2])

    collect(named)

    def to_outline(cls: Any, block: tuple) -> List[Any]:
        out = []
        for ins in block:
            if ins[0] == 'step':
                out.append(getattr(cls, ins[1]))
            elif ins[0] == 'ret':
                out.append(wc.return_ if ins[1] is None else wc.return_(ins[1]))
            elif ins[0] == 'while':
                out.append(wc.while_(getattr(cls, ins[1]))(*to_outline(cls, ins[2])))
            else:
                conds = ins[1]
                node = wc.if_(getattr(cls, conds[0][0]))(*to_outline(cls, conds[0][1]))
                for pred, body in conds[1:]:
                    node = node.elif_(getattr(cls, pred))(*to_outline(cls, body))
                if ins[2] is not None:
                    node = node.else_(*to_outline(cls, ins[2]))
                out.append(node)
        return out

    def define(cls: Any, spec: Any) -> None:
        super(klass, cls).define(spec)
        spec.outline(*to_outline(cls, named))

    ns['define'] = classmethod(define)
    klass = type('OutlineChain', (plumpy.WorkChain,), ns)
    return klass, whiles


class Stop(Exception):
    def __init__(self, value: Any) -> None:
        self.value = value


def reference(named: tuple) -> Any:
    """Generator-based interpreter of the structured program: yields the name it calls next, is sent the value."""

    def run_block(block: tuple) -> Any:
        for ins in block:
            if ins[0] == 'step':
                value = yield ins[1]
                if value is not None and value != CTX:
                    raise Stop(value)
            elif ins[0] == 'ret':
                raise Stop(ins[1])
            elif ins[0] == 'while':
                while (yield ins[1]):
                    yield from run_block(ins[2])
            else:
                taken = False
                for pred, body in ins[1]:
                    if (yield pred):
                        yield from run_block(body)
                        taken = True
                        break
                if not taken and ins[2] is not None:
                    yield from run_block(ins[2])

    return run_block(named)


def compare(named: tuple, calls: List[Tuple[str, Any]]) -> Tuple[Optional[str], Any, bool]:
    """Replays the observed calls against the reference. Returns (mismatch description or None, result, finished)."""
    gen = reference(named)
    result: Any = None
    try:
        expected = next(gen)
        for i, (name, value) in enumerate(calls):
            if name != expected:
                return (f'call {i}: implementation called {name}, the outline calls {expected}', None, False)
            expected = gen.send(value)
        return (f'implementation stopped after {len(calls)} calls, the outline goes on with {expected}', None, False)
    except StopIteration:
        finished_at = 'end'
        # "the value returned by the last step executed": what the last stepping call produced - the step's value if it ran
        # a step, nothing if it only evaluated predicates (an if_ without a true branch, a while_ that is over)
        if calls and calls[-1][0].startswith('s'):
            result = {} if calls[-1][1] == CTX else calls[-1][1]
    except Stop as stop:
        result = stop.value
        finished_at = 'stop'
    consumed = i + 1 if calls else 0  # noqa: F821 - i is bound when calls is non-empty
    if consumed != len(calls):
        return (f'outline is over after {consumed} calls, implementation made {len(calls)}: {calls[consumed:]}', result, True)
    return (None, result, True)


def also_acceptable(calls: List[Tuple[str, Any]], got: Any) -> bool:
    """The one case the statement leaves open: the last step that was executed returned a context assignment and after it
    only predicates were evaluated.  Read literally the result is "the value returned by the last step executed" (the
    assignment, an empty mapping here); the reference says None, like for a chain that simply ran out of instructions."""
    steps = [c for c in calls if c[0].startswith('s')]
    if not steps or calls[-1][0].startswith('s') or steps[-1][1] != CTX:
        return False
    return got is None or got == {}


def shape(named: tuple) -> str:
    parts = []
    for ins in named:
        if ins[0] == 'step':
            parts.append(ins[1])
        elif ins[0] == 'ret':
            parts.append(f'return({ins[1]})')
        elif ins[0] == 'while':
            parts.append(f'while({ins[1]})[{shape(ins[2])}]')
        else:
            conds = ' elif '.join(f'{p}[{shape(b)}]' for p, b in ins[1])
            els = f' else[{shape(ins[2])}]' if ins[2] is not None else ''
            parts.append(f'if {conds}{els}')
    return ', '.join(parts)


def kinds_in(named: tuple) -> List[str]:
    out = set()
    for ins in named:
        out.add(ins[0])
        if ins[0] == 'while':
            out.update(kinds_in(ins[2]))
        elif ins[0] == 'if':
            for _, b in ins[1]:
                out.update(kinds_in(b))
            if ins[2] is not None:
                out.add('else')
                out.update(kinds_in(ins[2]))
            if len(ins[1]) > 1:
                out.add('elif')
    return sorted(out)


class Prop:
    def make_run(self, unit: Any) -> Any:
        int_predicates = bool(unit) and unit[0] == 'int-predicates'
        if int_predicates:
            unit = unit[1]
        named = name_ast(unit, Names())
        klass, whiles = build_class(named)

        def run(chooser: Chooser) -> ExecResult:
            global ENV
            res = ExecResult()
            loop = VLoop(horizon=2000)
            loop.install()
            env = _Run(chooser, whiles, int_predicates)
            prev, ENV = ENV, env
            try:
                proc = klass(pid='w0', loop=loop)
                loop.create_task(proc.step_until_terminated())
                try:
                    loop.drain()
                except Horizon:
                    res.capped = True
                except Runaway:
                    res.capped = True
                    res.violations.append({'clause': 'runaway', 'features': {'kinds': kinds_in(named)},
                                           'detail': {'outline': shape(named), 'calls': env.calls[:12]}})
                    del chooser.log[len(chooser.prefix):]  # nothing below this execution is worth expanding
                    return res
                mismatch, want, _ = compare(named, env.calls)
                feats = {'kinds': kinds_in(named)}
                if mismatch is not None:
                    res.violations.append({'clause': 'call-order', 'features': feats,
                                           'detail': {'outline': shape(named), 'calls': env.calls, 'why': mismatch}})
                elif proc.state != plumpy.ProcessState.FINISHED:
                    res.violations.append({'clause': 'not-finished', 'features': dict(feats, state=str(proc.state)),
                                           'detail': {'outline': shape(named), 'calls': env.calls,
                                                      'exception': repr(proc.exception())}})
                elif (proc.result() != want or (type(proc.result()) is not type(want) and not isinstance(want, dict))) \
                        and not also_acceptable(env.calls, proc.result()):  # noqa: E721 (0 is not False; a context assignment is any mapping)
                    res.violations.append({'clause': 'result', 'features': feats,
                                           'detail': {'outline': shape(named), 'calls': env.calls,
                                                      'got': repr(proc.result()), 'want': repr(want)}})
                res.transitions = len(env.calls) + 1
                res.outcome = (tuple(env.calls), repr(proc.result()) if proc.state == plumpy.ProcessState.FINISHED else str(proc.state))
                res.states = {tuple(env.calls[:k]) for k in range(len(env.calls) + 1)}
                res.nontrivial = len(env.calls) >= 2
                res.sample = {'outline': shape(named), 'calls': [list(c) for c in env.calls],
                              'result': repr(proc.result()) if proc.state == plumpy.ProcessState.FINISHED else str(proc.state)}
            finally:
                ENV = prev
                loop.shutdown()
            return res

        return run


def factory() -> Prop:
    return Prop()


def units_for(tier: str) -> List[tuple]:
    return family(tier)


def run_check(tier: str, seed: int, workers: Any) -> Dict[str, Any]:
    units = units_for(tier)
    return runner.run_explorer(
        factory, (), units, {}, seed, workers, split=False,
        rule='every outline of the enumerated family over {step, if_/elif_/else_, while_, return_, return_(code)} (see '
             'pv/props/c09.py:family: flat blocks, one compound with neighbours, two compounds in sequence, nesting depth '
             f'2 (3 in thorough)), and for each every sequence of predicate values (False/True, <= {W} true evaluations '
             'per while_) and step return values (None/0/7); trace of step+predicate calls and result compared with a '
             'reference interpreter; states = distinct call prefixes; non-trivial = at least two calls',
        assumptions=['steps and predicates are synchronous and have no other effect than their return value',
                     f'while_ predicates are true at most {W} times per run'],
        bounds={'tier': tier, 'W': W, 'outlines': len(units), 'max_conditions': 2 if tier == 'quick' else 3},
        describe=lambda u: shape(name_ast(u[1] if u and u[0] == 'int-predicates' else u, Names())))


def replay(doc: Dict[str, Any]) -> List[dict]:
    from ..cli import to_tuple
    unit = to_tuple(doc['unit'])
    run = factory().make_run(unit)
    return run(Chooser(tuple(doc['choices']))).violations
