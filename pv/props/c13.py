# -*- coding: utf-8 -*-
"""C13 - a step's return value alone decides what happens next, with exact arguments (DESIGN.md 3, C13).

Bounded-exhaustive enumeration of step chains x argument / resume / result domains x every subset of checkpoint-restore
boundaries, each executed on the implementation and compared with a reference model written from the statement.
"""
from __future__ import annotations

import itertools
import multiprocessing as mp
import os
import time
from typing import Any, Dict, Iterator, List, Optional, Tuple

import plumpy

from .. import ckpt, programs
from ..ckpt import NOVALUE, PS
from .. import explore
from ..explore import digest

from ._common import process_comms_text_key as _text_key  # noqa: E402

ID = 'C13'

ARGS = ((), (1,), (1, 'x'))
KWARGS = ((), (('k', 2),))
RESUMES = (NOVALUE, 0, None, 'v')
WAITS = ((None, None), ('wmsg', (('d', 1),)))
FINALS = (('ret', 5), ('ret', 0), ('ret', None), ('unsucc', 3), ('unsucc', None), ('stop', 'r', True), ('stop', 'r', False),
          ('killcmd', 'bye'), ('killcmd', None))


def nonfinal_terms() -> List[Tuple[Any, Any]]:
    """(terminator, resume value or None)"""
    out: List[Tuple[Any, Any]] = []
    for a in ARGS:
        for k in KWARGS:
            out.append((('cont', a, k), None))
    # keyword names that are also parameter names somewhere on the way from Continue to the next state
    for name in ('process', 'run_fn', 'state_label', 'continue_fn'):
        out.append((('cont', (), ((name, 1),)), None))
    for r in RESUMES:
        for msg, data in WAITS:
            out.append((('wait', msg, data), r))
    return out


def chains(max_len: int) -> Iterator[Tuple[tuple, tuple]]:
    """Yields (program, resume script)."""
    nonfinal = nonfinal_terms()
    for length in range(1, max_len + 1):
        for nts in itertools.product(nonfinal, repeat=length - 1):
            for ft in FINALS:
                program = tuple(('S', (), t) for t, _ in nts) + (('S', (), ft),)
                resumes = tuple(r for t, r in nts if t[0] == 'wait')
                yield program, resumes


def model(program: tuple, resumes: tuple) -> Dict[str, Any]:
    """Reference: what the statement says must happen."""
    trace = []
    args: tuple = ()
    kwargs: tuple = ()
    resumes = list(resumes)
    for i, (_, _, term) in enumerate(program):
        trace.append((f's{i}', args, kwargs))
        kind = term[0]
        if kind == 'cont':
            args, kwargs = tuple(term[1]), tuple(sorted(dict(term[2]).items()))
        elif kind == 'wait':
            v = resumes.pop(0)
            args, kwargs = (() if v == NOVALUE else (v,)), ()
        elif kind == 'ret':
            return {'trace': trace, 'state': PS.FINISHED, 'result': term[1], 'successful': True}
        elif kind == 'unsucc':
            return {'trace': trace, 'state': PS.FINISHED, 'result': term[1], 'successful': False}
        elif kind == 'stop':
            return {'trace': trace, 'state': PS.FINISHED, 'result': term[1], 'successful': term[2]}
        elif kind == 'killcmd':
            return {'trace': trace, 'state': PS.KILLED, 'text': term[1]}
    raise AssertionError('chain without final step')


def n_boundaries(program: tuple) -> int:
    # boundary 0 (constructed) + run (the generated run() continues to s0) + one per step + one per wait
    return 2 + len(program) + sum(1 for _, _, t in program if t[0] == 'wait')


def check_case(program: tuple, resumes: tuple, restore_at: tuple, medium: str, exit_restore_at: tuple = ()) -> List[dict]:
    cls = programs.make_class(program)
    world = ckpt.CkptWorld(restore_at, resumes, medium, exit_restore_at=exit_restore_at)
    violations: List[dict] = []

    def violate(clause: str, feats: dict, detail: Any = None) -> None:
        violations.append({'clause': clause, 'features': feats, 'detail': detail,
                           'case': {'program': program, 'resumes': resumes, 'restore_at': restore_at, 'medium': medium,
                                    'exit_restore_at': exit_restore_at}})

    restored = bool(restore_at) or bool(exit_restore_at)
    try:
        try:
            proc = world.run(cls)
        except Exception as exc:  # noqa: BLE001
            violate('run-raised', {'exc': type(exc).__name__, 'restored': restored}, repr(exc))
            return violations
        want = model(program, resumes)
        plain_trace = list(want['trace'])
        for k in sorted(exit_restore_at, reverse=True):
            # the k-th RUNNING state is run() for k == 1 and step k-2 afterwards; a checkpoint taken when it is being left
            # still holds that state in the implementation as it stands, so the step runs once more (with the same
            # arguments) after the restore.  A checkpoint that already holds the commanded next state is as good: the
            # statement only asks for the commanded step to follow
            if k >= 2 and k - 2 < len(want['trace']):
                want['trace'].insert(k - 2, want['trace'][k - 2])
        got = [(t[0], t[1], t[2]) for t in world.trace if t[3] == 'enter']
        if world.errors:
            violate('stuck', {'restored': restored}, world.errors)
        if got != want['trace'] and got != plain_trace:
            # name the first disagreeing step and the command that preceded it
            k = next((i for i, (g, w) in enumerate(zip(got, want['trace'])) if g != w), min(len(got), len(want['trace'])))
            prev = program[k - 1][2][0] if 0 < k <= len(program) else None
            what = 'length'
            if k < len(got) and k < len(want['trace']):
                what = 'kwargs' if got[k][2] != want['trace'][k][2] else ('args' if got[k][1] != want['trace'][k][1] else 'name')
            violate('continuation-arguments', {'after': prev, 'differs': what, 'restored': restored},
                    {'got': got, 'want': want['trace']})
        if proc.state != want['state']:
            violate('final-state', {'want': str(want['state']), 'got': str(proc.state), 'restored': restored}, None)
        elif want['state'] == PS.FINISHED:
            if proc.result() != want['result'] or proc.successful() != want['successful']:
                violate('result', {'final': program[-1][2][0], 'restored': restored},
                        {'got': (proc.result(), proc.successful()), 'want': (want['result'], want['successful'])})
        elif want['state'] == PS.KILLED:
            msg = proc.killed_msg()
            text = msg.get(_text_key()) if isinstance(msg, dict) else msg
            if text != want['text']:
                violate('kill-message', {'restored': restored}, {'got': repr(msg), 'want': want['text']})
    finally:
        world.finish()
    return violations


def cases(tier: str) -> Iterator[Tuple[tuple, tuple, tuple, str, tuple]]:
    max_subset = 2 if tier == 'quick' else 99
    media = ('pickle',) if tier == 'quick' else ('pickle', 'deepcopy', 'yaml')
    for program, resumes in chains(3):
        nb = n_boundaries(program)
        for medium in media:
            for size in range(0, min(nb, max_subset) + 1):
                for subset in itertools.combinations(range(nb), size):
                    if size == 0 and medium != media[0]:
                        continue
                    yield program, resumes, subset, medium, ()
        # one checkpoint taken in the exit hook of each RUNNING state
        for k in range(1, len(program) + 2):
            yield program, resumes, (), media[0], (k,)


def _work(chunk: List[Tuple[tuple, tuple, tuple, str, tuple]]) -> Dict[str, Any]:
    out: Dict[str, Any] = {'n': 0, 'violations': [], 'nontrivial': 0, 'outcomes': set(), 'restores': 0}
    for case in chunk:
        out['n'] += 1
        vs = explore.guarded_case({'program': case[0], 'resumes': case[1], 'restore_at': case[2], 'medium': case[3], 'exit_restore_at': case[4]}, check_case, *case)
        if case[2] or case[4]:
            out['nontrivial'] += 1
            out['restores'] += len(case[2])
        out['outcomes'].add(digest((case[0], case[1])))
        for v in vs:
            if len(out['violations']) < 200:
                out['violations'].append(v)
    return out


def run_check(tier: str, seed: int, workers: Any) -> Dict[str, Any]:
    all_cases = list(cases(tier))
    chunk = 400
    chunks = [all_cases[i:i + chunk] for i in range(0, len(all_cases), chunk)]
    k = seed % max(1, len(chunks))
    chunks = chunks[k:] + chunks[:k]
    workers = workers or min(16, os.cpu_count() or 1)
    total = {'n': 0, 'violations': [], 'nontrivial': 0, 'outcomes': set(), 'restores': 0}
    with mp.get_context('fork').Pool(workers) as pool:
        for out in pool.imap_unordered(_work, chunks):
            total['n'] += out['n']
            total['nontrivial'] += out['nontrivial']
            total['restores'] += out['restores']
            total['outcomes'] |= out['outcomes']
            total['violations'].extend(out['violations'])
    # one witness (the smallest) per (clause, features)
    best: Dict[Any, dict] = {}
    for v in total['violations']:
        key = (v['clause'], repr(sorted(v['features'].items())))
        size = (len(v['case']['restore_at']), len(v['case']['program']), repr(v['case']))
        if key not in best or size < best[key][0]:
            best[key] = (size, v)
    violations = [v for _, v in sorted(best.values(), key=lambda x: x[0])]
    sample = all_cases[(seed * 7919) % len(all_cases)]
    coverage = {
        'evaluations': total['n'], 'distinct_nontrivial': total['nontrivial'], 'states': len(total['outcomes']),
        'transitions': total['restores'] + total['n'], 'traces_validated_against_impl': total['n'],
        'rule': 'every chain of <=3 steps over Continue(args x kwargs) / Wait(msg,data)+resume value / plain value / '
                'UnsuccessfulResult / Stop / Kill, x every subset of checkpoint-restore boundaries (quick: subsets of '
                'size <=2 through pickle; thorough: all subsets through pickle, deepcopy, yaml); non-trivial = at least '
                'one restore; states = distinct (chain, resume script) pairs; transitions = executions + restores',
        'samples': [{'program': programs.describe(sample[0]), 'resumes': repr(sample[1]), 'restore_at': list(sample[2]),
                     'medium': sample[3], 'exit_restore_at': list(sample[4])}],
        'exhaustive': True, 'chains': len(total['outcomes']),
    }
    return {'violations': violations, 'coverage': coverage, 'errors': [], 'level': 'model_checking',
            'assumptions': ['steps are synchronous; argument, resume and result domains are the small ones listed in rule',
                            'the reference model is written from the property statement'],
            'bounds': {'chain_len': 3, 'restore_subset': 'all' if tier != 'quick' else 2}}


def replay(doc: Dict[str, Any]) -> List[dict]:
    from ..cli import to_tuple
    case = doc['case']
    return check_case(to_tuple(case['program']), to_tuple(case['resumes']), to_tuple(case['restore_at']), case['medium'],
                      to_tuple(case.get('exit_restore_at') or ()))
