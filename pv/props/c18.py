# -*- coding: utf-8 -*-
"""C18 - Process.current() is the process whose code is running (DESIGN.md 3, C18).

Several processes on one VLoop: async steps waiting on environment gates, scheduled callbacks, children launched from a
step, children executed re-entrantly from inside a step (nested run_until_complete), every lifecycle / pause / play hook
overridden to sample ``Process.current()``, plus an observer task that is no process at all and the harness itself between
callbacks.  Gate completions (and one pause/play of the first process) are placed at every choice point in every order.
"""
from __future__ import annotations

import asyncio
from typing import Any, Dict, List, Optional, Tuple

import plumpy
from plumpy import process_states

from .. import runner
from ..explore import Chooser, ExecResult
from ..vloop import Horizon, VLoop

ID = 'C18'
HOOKS = ('init', 'on_create', 'on_run', 'on_running', 'on_exit_running', 'on_wait', 'on_waiting', 'on_exit_waiting', 'on_finish', 'on_finished',
         'on_terminated', 'on_close', 'on_entering', 'on_entered', 'on_exiting', 'on_pausing', 'on_paused', 'on_playing',
         'on_output_emitting', 'on_output_emitted', 'on_kill', 'on_killed')

ENV: Any = None


class Env:
    def __init__(self, loop: VLoop) -> None:
        self.loop = loop
        self.records: List[Tuple[str, str, str, Any]] = []  # (site class, site, who, what current() was)
        self.gates: Dict[str, asyncio.Future] = {}
        self.procs: Dict[str, Any] = {}

    def sample(self, site_class: str, site: str, who: Optional[Any]) -> None:
        if who is None and self.loop.nest_depth > 0:
            # code that is no process, run by the loop while a step sits in a nested execute(): that step has neither
            # returned nor yielded, so what such code observes is not laid down
            return
        cur = plumpy.Process.current()
        self.records.append((site_class, site, who.NAME if who is not None else '-', cur.NAME if cur is not None else None))

    def gate(self, name: str) -> asyncio.Future:
        fut = self.loop.create_future()
        self.gates[name] = fut
        return fut


def _hook(name: str) -> Any:
    def hook(self: Any, *args: Any, **kwargs: Any) -> Any:
        ENV.sample('hook', name, self)
        return getattr(super(Proc, self), name)(*args, **kwargs)

    hook.__name__ = name
    return hook


class Strict(plumpy.Process):
    """Cannot be constructed with a non-integer x: the constructor raises out of the process's own code."""

    NAME = 'strict'

    @classmethod
    def define(cls, spec: Any) -> None:
        super().define(spec)
        spec.input('x', valid_type=int)


def failed_construction(loop: Any) -> bool:
    try:
        Strict(inputs={'x': 'not an int'}, pid='strict', loop=loop)
    except Exception:  # noqa: BLE001 - however the refusal is worded
        return True
    return False


class Proc(plumpy.Process):
    """role: 'plain' | 'launcher' (launches a child from its step) | 'nester' (executes a child inside its step)."""

    NAME = '?'
    ROLE = 'plain'

    @classmethod
    def define(cls, spec: Any) -> None:
        super().define(spec)
        spec.inputs.dynamic = True
        spec.outputs.dynamic = True

    def __init__(self, *args: Any, **kwargs: Any) -> None:
        inputs = kwargs.get('inputs') or {}
        self.NAME = inputs.get('name', '?')
        self.ROLE = inputs.get('role', 'plain')
        super().__init__(*args, **kwargs)
        ENV.procs[self.NAME] = self

    async def run(self) -> Any:
        ENV.sample('step', 'run:enter', self)
        self.call_soon(self.callback, 'early')
        await ENV.gate(self.NAME)
        ENV.sample('step', 'run:after-gate', self)
        if '.' in self.NAME:
            # code of the parent triggered from the child's step: it must see the parent
            parent = ENV.procs[self.NAME.rsplit('.', 1)[0]]
            parent.call_soon(parent.callback, 'by-child')
        failed_construction(self.loop)
        ENV.sample('step', 'run:after-failed-construction', self)
        if self.ROLE == 'launcher':
            child = self.launch(Proc, inputs={'name': self.NAME + '.child', 'role': 'plain'}, pid=self.NAME + '.child')
            ENV.sample('step', 'run:after-launch', self)
            await asyncio.sleep(0)
            ENV.sample('step', 'run:after-yield', self)
        elif self.ROLE == 'nester':
            child = Proc(inputs={'name': self.NAME + '.nested', 'role': 'yielder'}, pid=self.NAME + '.nested', loop=self.loop)
            ENV.sample('step', 'run:before-execute', self)
            child.execute()
            ENV.sample('step', 'run:after-execute', self)
        elif self.ROLE == 'controller':
            # a step of this process makes code of *another* process run (that one's pause / play hooks) while that other
            # process is itself further down the stack (it executes this one from one of its callbacks)
            host = ENV.procs[self.NAME.rsplit('.', 1)[0]]
            host.pause('by the process it executes')
            ENV.sample('step', 'run:after-host-pause', self)
            host.play()
            ENV.sample('step', 'run:after-host-play', self)
            await asyncio.sleep(0)
            ENV.sample('step', 'run:after-host-control-and-yield', self)
        elif self.ROLE == 'yielder':
            pass
        self.out('o', 1)
        return process_states.Continue(self.second, 1)

    def callback(self, tag: str) -> None:
        ENV.sample('callback', f'callback:{tag}', self)

    def host_callback(self) -> None:
        ENV.sample('callback', 'host:enter', self)
        child = Proc(inputs={'name': self.NAME + '.ctl', 'role': 'controller'}, pid=self.NAME + '.ctl', loop=self.loop)
        ENV.sample('callback', 'host:before-execute', self)
        child.execute()
        ENV.sample('callback', 'host:after-execute', self)

    def second(self, value: Any) -> Any:
        ENV.sample('continuation', 'second:enter', self)
        self.call_soon(self.callback, 'late')
        return process_states.Wait(self.third, 'w')

    def third(self, value: Any = None) -> Any:
        ENV.sample('continuation', 'third:enter', self)
        return 3


for _name in HOOKS:
    setattr(Proc, _name, _hook(_name))


class SamplingWaiting(process_states.Waiting):
    """A WAITING state of the user's own (what aiida-core does): its ``execute`` is code of the process."""

    async def execute(self) -> Any:
        ENV.sample('state', 'waiting.execute:enter', self.process)
        await asyncio.sleep(0)
        ENV.sample('state', 'waiting.execute:after-yield', self.process)
        return await super().execute()


class CwProc(Proc):
    @classmethod
    def get_state_classes(cls) -> Any:
        states = dict(super().get_state_classes())
        states[process_states.ProcessState.WAITING] = SamplingWaiting
        return states


async def drive(proc: Any) -> None:
    """Steps a process by hand (``step`` is public); this coroutine is no process."""
    while not proc.has_terminated():
        await proc.step()
        ENV.sample('driver', 'after-step', None)


async def observer(n: int) -> None:
    for i in range(n):
        ENV.sample('observer', f'observer:{i}', None)
        await asyncio.sleep(0)


SCENARIOS: Dict[str, Tuple[Tuple[str, str], ...]] = {
    'two-plain': (('A', 'plain'), ('B', 'plain')),
    'launcher': (('A', 'launcher'),),
    'launcher+plain': (('A', 'launcher'), ('B', 'plain')),
    'nester': (('A', 'nester'),),
    'nester+plain': (('A', 'nester'), ('B', 'plain')),
    'nester+launcher': (('A', 'nester'), ('B', 'launcher')),
    'three': (('A', 'plain'), ('B', 'launcher'), ('C', 'nester')),
    'hand-stepped': (('A', 'plain'),),
    'hand-stepped+launcher': (('A', 'plain'), ('B', 'launcher')),
    'host': (('A', 'host'),),
    'host+plain': (('A', 'host'), ('B', 'plain')),
    'custom-wait': (('A', 'customwait'),),
    'custom-wait+launcher': (('A', 'customwait'), ('B', 'launcher')),
}


class Prop:
    def make_run(self, unit: Any) -> Any:
        scenario, with_pause = unit

        def run(chooser: Chooser) -> ExecResult:
            global ENV
            res = ExecResult()
            loop = VLoop(horizon=3000)
            loop.install()
            env = Env(loop)
            prev, ENV = ENV, env
            pause_budget = {'pause': 1, 'play': 1} if with_pause else {}

            def options() -> List[Tuple[Any, Any]]:
                opts: List[Tuple[Any, Any]] = []
                if loop.has_ready():
                    opts.append((('tick',), loop.tick))
                for name, fut in sorted(env.gates.items()):
                    if not fut.done():
                        opts.append((('gate', name), lambda f=fut, n=name: f.set_result(n)))
                a = env.procs.get('A')
                if a is not None and not a.has_terminated():
                    if pause_budget.get('pause') and not a.paused:
                        opts.append((('pause',), lambda: (pause_budget.__setitem__('pause', 0), a.pause('p'))))
                    if not pause_budget.get('pause', 1) and pause_budget.get('play') and not loop.has_ready():
                        opts.append((('play',), lambda: (pause_budget.__setitem__('play', 0), a.play())))
                if not opts or not loop.has_ready():
                    for name, proc in sorted(env.procs.items()):
                        if proc.state == plumpy.ProcessState.WAITING and not proc.paused and not loop.has_ready() and \
                                not any(o[0] == ('gate', n) for o in opts for n in [o[0][1] if o[0][0] == 'gate' else None]):
                            opts.append((('resume', name), lambda p=proc: p.resume()))
                return opts

            def pump() -> bool:
                opts = options()
                if not opts:
                    return False
                c = chooser.choose([(label, '') for label, _ in opts])
                res.transitions += 1
                opts[c][1]()
                if loop.nest_depth == 0:  # inside a nested execute() the harness runs on the stack of that step
                    env.sample('harness', 'between-callbacks', None)
                return True

            try:
                tasks = []
                failed_construction(loop)
                env.sample('harness', 'after-failed-construction', None)
                for name, role in SCENARIOS[scenario]:
                    proc = (CwProc if role == 'customwait' else Proc)(inputs={'name': name, 'role': role}, pid=name, loop=loop)
                    env.sample('harness', 'after-construction', None)
                    if role == 'host':
                        # never stepped: one of its scheduled callbacks executes another process, whose step controls it
                        proc.call_soon(proc.host_callback)
                    elif scenario.startswith('hand-stepped') and name == 'A':
                        tasks.append(loop.create_task(drive(proc)))
                    else:
                        tasks.append(loop.create_task(proc.step_until_terminated()))
                loop.create_task(observer(6))
                loop.pump = pump
                try:
                    while pump():
                        pass
                except Horizon:
                    res.capped = True
                # a process that is closed by its owner before it ever ran: its on_close hook is code of that process
                try:
                    closed_early = Proc(inputs={'name': 'Z', 'role': 'plain'}, pid='Z', loop=loop)
                    closed_early.close()
                    env.sample('harness', 'after-early-close', None)
                except Horizon:
                    res.capped = True
                # judge every sample
                seen = set()
                for site_class, site, who, cur in env.records:
                    want = None if who == '-' else who
                    if cur != want:
                        key = (site_class, site if site_class != 'hook' else site)
                        if key in seen:
                            continue
                        seen.add(key)
                        kind = 'none' if cur is None else ('parent' if want and want.startswith(str(cur) + '.') else 'other-process')
                        res.violations.append({'clause': 'current-is-wrong', 'features': {
                            'site_class': site_class, 'site': site.split(':')[0] if site_class != 'hook' else site, 'sees': kind},
                            'detail': {'site': site, 'process': who, 'current': cur, 'scenario': scenario}})
                unfinished = [n for n, p in env.procs.items() if not p.has_terminated()]
                if unfinished and not res.capped:
                    # (whether everything terminates is the business of C04-C06; here the run just covers fewer sites)
                    res.extra = dict(getattr(res, 'extra', None) or {}, unfinished_runs=1)
                res.nontrivial = len({r[2] for r in env.records if r[0] == 'step'}) >= 2
                res.outcome = tuple(sorted({(r[0], r[1], r[2], r[3]) for r in env.records if r[0] != 'harness'}))
                res.states = {(r[0], r[1], r[2]) for r in env.records}
                res.sample = {'scenario': scenario, 'choices': [repr(x) for x in chooser.labels][:30], 'samples': len(env.records)}
            finally:
                ENV = prev
                loop.pump = None
                loop.shutdown()
            return res

        return run


def factory() -> Prop:
    return Prop()


def units_for(tier: str) -> List[Any]:
    names = ['two-plain', 'launcher', 'launcher+plain', 'nester', 'nester+plain']
    units: List[Any] = [(n, False) for n in names] + [('two-plain', True), ('launcher', True), ('nester', True)]
    units += [('hand-stepped', True), ('hand-stepped', False)]
    units += [('host', False), ('custom-wait', False), ('custom-wait', True)]
    if tier != 'quick':
        # (three processes at once, and two with a pause on top, do not finish within any reasonable time: measured, not run)
        units += [('nester+launcher', False), ('nester+plain', True), ('hand-stepped+launcher', False), ('host+plain', False),
                  ('custom-wait+launcher', False)]
    return units


def run_check(tier: str, seed: int, workers: Any) -> Dict[str, Any]:
    return runner.run_explorer(
        factory, (), units_for(tier), {}, seed, workers, split=True,
        rule='scenarios of 1-3 concurrently stepping processes (plain, launching a child from a step, executing a child '
             're-entrantly inside a step) with async steps on environment gates, scheduled callbacks, every hook overridden, '
             'an observer task and the harness itself sampling Process.current(); every order and placement of the gate '
             'completions / resumes (and one pause+play of the first process) between loop callbacks; non-trivial = at '
             'least two processes sampled inside steps',
        assumptions=['single event loop thread', 'nested execute() pumps the same deterministic loop'],
        bounds={'tier': tier}, time_limit=240 if tier == 'quick' else 1500,
        describe=lambda u: {'scenario': u[0], 'pause': u[1]})


def replay(doc: Dict[str, Any]) -> List[dict]:
    from ..cli import to_tuple
    unit = to_tuple(doc['unit'])
    return factory().make_run(unit)(Chooser(tuple(doc['choices']))).violations
