# -*- coding: utf-8 -*-
"""C19 - any Savable round-trips its declared members through the named loader (DESIGN.md 3, C19).

Bounded-exhaustive: inheritance chains of ``auto_persist`` declarations x member kinds x future states x loader
configurations; every shape is saved, the original mutated, and the saved state loaded again.
"""
from __future__ import annotations

import asyncio
import copy
import itertools
import multiprocessing as mp
import os
import sys
from typing import Any, Dict, Iterator, List, Optional, Tuple

import plumpy
from plumpy import loaders, persistence

from .. import explore
from ..vloop import VLoop

ID = 'C19'
MEMBERS = ('a', 'b', 'm', 's', 'f')
FUTURE_STATES = ('pending', 'result', 'exception', 'cancelled', 'result-savable')
LOADER_MODES = ('default', 'global-custom', 'per-save-custom', 'per-save-custom+context', 'per-save-strict')


class CountingLoader(loaders.ObjectLoader):
    """Identifies objects as ``custom!<default identifier>``; counts what it is asked to load (class level: the library
    may create its own instance from the recorded class)."""

    loads: List[str] = []

    def load_object(self, identifier: str) -> Any:
        CountingLoader.loads.append(identifier)
        if identifier.startswith('custom!'):
            identifier = identifier[len('custom!'):]
        return loaders.DefaultObjectLoader().load_object(identifier)

    def identify_object(self, obj: Any) -> str:
        return 'custom!' + loaders.DefaultObjectLoader().identify_object(obj)


class StrictLoader(CountingLoader):
    """A custom loader that knows its own identifiers only (CountingLoader also resolves the default ones)."""

    def load_object(self, identifier: str) -> Any:
        if not identifier.startswith('custom!'):
            raise ValueError(f'StrictLoader does not know {identifier!r}')
        return super().load_object(identifier)


@persistence.auto_persist('v', 'inner')
class Inner(persistence.Savable):
    def __init__(self, depth: int) -> None:
        self.v = [depth, {'d': depth}]
        self.inner = Inner(depth - 1) if depth > 1 else None
        self.scratch = 'not persisted'


class ValueErrorLike(Exception):
    pass


def make_future(state: str) -> persistence.SavableFuture:
    fut = persistence.SavableFuture()
    if state == 'result':
        fut.set_result({'r': [1, 2]})
    elif state == 'exception':
        fut.set_exception(ValueErrorLike('boom', 3))
        fut.exception()
    elif state == 'cancelled':
        fut.cancel()
    elif state == 'result-savable':
        fut.set_result(Inner(1))  # resolved with an object that is itself a Savable
    return fut


def future_status(fut: Any) -> Any:
    if not isinstance(fut, asyncio.Future):
        return ('not-a-future', type(fut).__name__)
    if not fut.done():
        return ('pending',)
    if fut.cancelled():
        return ('cancelled',)
    exc = fut.exception()
    if exc is not None:
        return ('exception', type(exc).__name__, exc.args)
    if isinstance(fut.result(), persistence.Savable):
        return ('result', type(fut.result()).__name__, repr(getattr(fut.result(), 'v', None)))
    return ('result', repr(fut.result()))


_CLASSES: Dict[Any, List[type]] = {}
_COUNTER = [0]


def make_chain(levels: Tuple[Tuple[str, ...], ...]) -> List[type]:
    """Classes of an inheritance chain; level i declares ``levels[i]`` with @auto_persist. Returns all classes."""
    if levels in _CLASSES:
        return _CLASSES[levels]
    module = sys.modules[__name__]
    classes: List[type] = []
    base: type = persistence.Savable
    for i, declared in enumerate(levels):
        _COUNTER[0] += 1
        name = f'Shape{_COUNTER[0]}'

        def __init__(self: Any, future_state: str = 'pending', depth: int = 2) -> None:
            self.a = (3, [1, 2], {'t': [0]})
            self.b = {'k': [1, 2], 'n': {'x': 1}}
            self.m = self.method
            self.s = Inner(depth)
            self.f = make_future(future_state)
            self.z = 'never declared'

        def method(self: Any) -> str:
            return f'method of {id(self)}'

        cls = type(name, (base,), {'__init__': __init__, 'method': method, '__module__': __name__, 'LEVEL': i})
        if declared:
            cls = persistence.auto_persist(*declared)(cls)
        setattr(module, name, cls)
        classes.append(cls)
        base = cls
    _CLASSES[levels] = classes
    return classes


def canon(value: Any) -> Any:
    if isinstance(value, dict):
        return {k: canon(v) for k, v in value.items()}
    if isinstance(value, (list, tuple)):
        return [canon(v) for v in value]
    if isinstance(value, BaseException):
        return ('exc', type(value).__name__, value.args)
    return value


def shapes(tier: str) -> Iterator[Tuple[Tuple[str, ...], ...]]:
    subsets = [c for n in range(0, 6) for c in itertools.combinations(MEMBERS, n)]
    for s in subsets:
        yield (s,)
    for s1 in subsets:
        for s2 in subsets:
            if tier == 'quick' and len(s1) + len(s2) > 3 and not (len(s1) + len(s2) == 5 and not set(s1) & set(s2)):
                continue
            yield (s1, s2)
    small = [c for n in range(0, 2) for c in itertools.combinations(MEMBERS, n)]
    for combo in itertools.product(small, repeat=3):
        yield combo


def check_case(levels: Tuple[Tuple[str, ...], ...], future_state: str, mode: str) -> List[dict]:
    violations: List[dict] = []
    declared = set().union(*[set(l) for l in levels]) if levels else set()

    def violate(clause: str, detail: Any = None, **feats: Any) -> None:
        feats.update({'loader': mode})
        violations.append({'clause': clause, 'features': feats, 'detail': detail,
                           'case': {'levels': levels, 'future': future_state, 'mode': mode}})

    classes = make_chain(levels)
    cls = classes[-1]
    custom = StrictLoader() if mode == 'per-save-strict' else CountingLoader()
    CountingLoader.loads = []
    previous = loaders.get_object_loader()
    try:
        if mode == 'global-custom':
            loaders.set_object_loader(custom)
        obj = cls(future_state)
        save_ctx = persistence.LoadSaveContext(loader=custom) if mode.startswith('per-save-') else None
        try:
            saved = obj.save(save_ctx)
        except BaseException as exc:  # noqa: BLE001
            violate('save-raised', repr(exc), exc=type(exc).__name__, future=future_state if 'f' in declared else '-')
            return violations
        snapshot = copy.deepcopy(canon(saved))
        # (how a saved state is laid out is not laid down: what was saved is judged through what a load restores)
        # copied at save time: mutate the original afterwards
        obj.a[1].append('later')
        obj.a[2]['t'].append('later')
        obj.b['k'].append('later')
        obj.b['n']['x'] = 'later'
        obj.s.v.append('later')
        obj.s.v[1]['d'] = 'later'
        if canon(saved) != snapshot:
            diff = sorted(k for k in snapshot if canon(saved).get(k) != snapshot[k])
            violate('saved-state-aliases-original', diff, member=diff[0] if diff and diff[0] in MEMBERS else '?')
        load_ctx = persistence.LoadSaveContext(loader=custom) if mode == 'per-save-custom+context' else None
        try:
            loaded = persistence.Savable.load(copy.deepcopy(saved) if False else saved, load_ctx)
        except BaseException as exc:  # noqa: BLE001
            violate('load-raised', repr(exc), exc=type(exc).__name__)
            return violations
        if type(loaded) is not cls:
            violate('wrong-class', f'{type(loaded)} instead of {cls}')
            return violations
        # (that the custom loader resolved the class shows in the class being found at all: its identifiers mean nothing to
        #  the default loader; how often it is asked - e.g. a cached resolution - is not laid down)
        if mode == 'default' and CountingLoader.loads:
            violate('custom-loader-used-unasked', CountingLoader.loads)
        fresh = cls(future_state)  # what the members looked like at save time
        for name in sorted(declared):
            if not hasattr(loaded, name):
                violate('member-not-restored', name, member=name)
                continue
            got = getattr(loaded, name)
            if name in ('a', 'b'):
                if got != getattr(fresh, name):
                    violate('plain-member-differs', {'got': got, 'want': getattr(fresh, name)}, member=name)
            elif name == 'm':
                if getattr(got, '__self__', None) is not loaded or getattr(got, '__name__', None) != 'method':
                    violate('method-not-rebound', repr(got), member=name)
            elif name == 's':
                want = fresh.s
                node, wnode, depth = got, want, 0
                while wnode is not None:
                    if type(node) is not Inner or node is obj.s or node.v != wnode.v or hasattr(node, 'scratch'):
                        violate('nested-savable-differs', {'depth': depth, 'got': getattr(node, 'v', None), 'want': wnode.v},
                                member=name, depth=depth)
                        break
                    node, wnode, depth = node.inner, wnode.inner, depth + 1
                else:
                    if node is not None:
                        violate('nested-savable-differs', 'extra nesting', member=name, depth=depth)
            elif name == 'f':
                if future_status(got) != future_status(fresh.f):
                    violate('future-state-differs', {'got': future_status(got), 'want': future_status(fresh.f)},
                            member=name, future=future_state)
        for name in ('z',) + tuple(m for m in MEMBERS if m not in declared):
            if hasattr(loaded, name):
                violate('undeclared-member-restored', name)
        try:
            loaded.save(save_ctx)  # (that a second save gives the identical state is C07's sentence)
        except BaseException as exc:  # noqa: BLE001
            violate('second-save-raised', repr(exc), exc=type(exc).__name__)
        # the parents of the chain are unaffected by what the children declared
        for i, parent in enumerate(classes[:-1]):
            want = set().union(*[set(l) for l in levels[:i + 1]])
            restored = persistence.Savable.load(parent(future_state).save())
            got_members = {k for k in MEMBERS if hasattr(restored, k)}
            if got_members != want:
                violate('parent-class-declarations-changed', {'level': i, 'got': sorted(got_members), 'want': sorted(want)})
    finally:
        loaders.set_object_loader(previous)
    return violations


def replace_string(state: Any, old: str, new: str) -> bool:
    """Replace every string value equal to ``old`` anywhere in the (nested) saved state; says whether there was one."""
    found = False
    if isinstance(state, dict):
        for key, value in list(state.items()):
            if value == old and isinstance(value, str):
                state[key] = new
                found = True
            elif isinstance(value, (dict, list)):
                found = replace_string(value, old, new) or found
    elif isinstance(state, list):
        for i, value in enumerate(state):
            if value == old and isinstance(value, str):
                state[i] = new
                found = True
            elif isinstance(value, (dict, list)):
                found = replace_string(value, old, new) or found
    return found


def check_unknown() -> List[dict]:
    out: List[dict] = []
    classes = make_chain((('a',),))
    saved = classes[-1]().save()
    for what in ('class', 'loader'):
        state = copy.deepcopy(saved)
        if what == 'class':
            known = loaders.get_object_loader().identify_object(classes[-1])
            if not replace_string(state, known, f'{__name__}:NoSuchClass'):
                continue  # (the identifier is not kept as a plain string: nothing to doctor)
        else:
            state = classes[-1]().save(persistence.LoadSaveContext(loader=CountingLoader()))
            known = loaders.DefaultObjectLoader().identify_object(CountingLoader)
            if not replace_string(state, known, f'{__name__}:NoSuchLoader'):
                continue
        try:
            obj = persistence.Savable.load(state)
            out.append({'clause': 'unknown-identifier-accepted', 'features': {'what': what}, 'detail': repr(obj),
                        'case': {'unknown': what}})
        except ValueError:
            pass
        except BaseException as exc:  # noqa: BLE001
            if what == 'class':  # (for an unknown recorded loader some error is all that can be asked)
                out.append({'clause': 'unknown-identifier-not-valueerror', 'features': {'what': what, 'exc': type(exc).__name__},
                            'detail': repr(exc), 'case': {'unknown': what}})
    return out


def top_level_future_cases() -> List[dict]:
    """A SavableFuture saved on its own."""
    out: List[dict] = []
    for state in FUTURE_STATES:
        fut = make_future(state)
        try:
            saved = fut.save()
            loaded = persistence.Savable.load(saved)
            if future_status(loaded) != future_status(fut):
                out.append({'clause': 'future-state-differs', 'features': {'member': '<top>', 'future': state, 'loader': 'default'},
                            'detail': {'got': future_status(loaded), 'want': future_status(fut)}, 'case': {'top_future': state}})
        except BaseException as exc:  # noqa: BLE001
            out.append({'clause': 'save-raised', 'features': {'exc': type(exc).__name__, 'future': state, 'loader': 'default'},
                        'detail': repr(exc), 'case': {'top_future': state}})
    return out


# ---- declarations made through the classmethod / the persist() hook; classes that share a name ------------------------------

_STYLE_COUNTER = [0]


def make_styled_pair(parent_style: str, child_style: str) -> Tuple[type, type, type]:
    """(Parent, Child, Sibling): Parent declares 'a', Child adds 'b', Sibling (another subclass of Parent) adds nothing.
    style: 'decorator' | 'classmethod' (cls.auto_persist(...) called after the class statement) | 'hook' (called from the
    persist() hook) | 'none'."""
    _STYLE_COUNTER[0] += 1
    n = _STYLE_COUNTER[0]
    module = sys.modules[__name__]

    def build(name: str, base: type, member: Optional[str], style: str) -> type:
        def __init__(self: Any) -> None:
            self.a, self.b = ['a'], ['b']

        ns: Dict[str, Any] = {'__init__': __init__, '__module__': __name__}
        if style == 'hook' and member:
            def persist(cls: Any, _m: str = member, _base: type = base) -> None:
                super(klass_holder[0], cls).persist()
                cls.auto_persist(_m)
            ns['persist'] = classmethod(persist)
        klass_holder: List[Any] = [None]
        cls = type(name, (base,), ns)
        klass_holder[0] = cls
        if style == 'decorator' and member:
            cls = persistence.auto_persist(member)(cls)
            klass_holder[0] = cls
        elif style == 'classmethod' and member:
            cls.auto_persist(member)
        setattr(module, name, cls)
        return cls

    parent = build(f'StyledParent{n}', persistence.Savable, 'a', parent_style)
    child = build(f'StyledChild{n}', parent, 'b', child_style)
    sibling = build(f'StyledSibling{n}', parent, None, 'none')
    return parent, child, sibling


def check_declaration_styles() -> List[dict]:
    """What a class persists is what it and its bases declared, whichever way and in whichever order the classes are used."""
    out: List[dict] = []
    want = {'parent': {'a'}, 'child': {'a', 'b'}, 'sibling': {'a'}}
    styles = ('decorator', 'classmethod', 'hook') if hasattr(persistence.Savable, 'persist') else ('decorator', 'classmethod')
    for parent_style in styles:  # (the persist() hook is a way of declaring only as long as the library has it)
        for child_style in styles:
            for order in itertools.permutations(('parent', 'child', 'sibling')):
                parent, child, sibling = make_styled_pair(parent_style, child_style)
                classes = {'parent': parent, 'child': child, 'sibling': sibling}
                case = {'styles': [parent_style, child_style], 'order': list(order)}
                for round_ in (1, 2):
                    for who in order:
                        feats = {'parent_style': parent_style, 'child_style': child_style, 'who': who}
                        try:
                            saved = classes[who]().save()
                        except BaseException as exc:  # noqa: BLE001
                            out.append({'clause': 'declaration:save-raised', 'features': dict(feats, exc=type(exc).__name__),
                                        'detail': repr(exc), 'case': case})
                            continue
                        restored = persistence.Savable.load(saved)
                        got = {k for k in ('a', 'b') if hasattr(restored, k)}  # (judged through what a load restores)
                        if got != want[who]:
                            out.append({'clause': 'declaration:members-differ', 'features': feats,
                                        'detail': {'got': sorted(got), 'want': sorted(want[who]), 'round': round_}, 'case': case})
    best: Dict[Any, dict] = {}
    for v in out:
        best.setdefault((v['clause'], repr(sorted(v['features'].items()))), v)
    return list(best.values())


@persistence.auto_persist('v')
class Twin(persistence.Savable):
    """Module level class ..."""

    def __init__(self) -> None:
        self.v = 'module-level'


class Holder:
    @persistence.auto_persist('v')
    class Twin(persistence.Savable):
        """... and a nested class of the same name (same ``__name__``, different ``__qualname__``)."""

        def __init__(self) -> None:
            self.v = 'nested'


def check_same_name() -> List[dict]:
    out: List[dict] = []
    for which, cls in (('nested', Holder.Twin), ('module', Twin)):
        case = {'same_name': which}
        try:
            saved = cls().save()
        except ValueError:
            continue  # refusing to identify a class that cannot be found again is fine
        except BaseException as exc:  # noqa: BLE001
            out.append({'clause': 'save-raised', 'features': {'exc': type(exc).__name__, 'loader': 'default', 'class': which},
                        'detail': repr(exc), 'case': case})
            continue
        try:
            loaded = persistence.Savable.load(saved)
        except ValueError:
            continue
        if type(loaded) is not cls:
            out.append({'clause': 'wrong-object', 'features': {'class': which},
                        'detail': f'saved a {cls.__qualname__}, loaded a {type(loaded).__qualname__}', 'case': case})
    return out


# ---- loader histories: the result of a load must not depend on what was loaded before --------------------------------------

@persistence.auto_persist('v')
class ThingA(persistence.Savable):
    def __init__(self) -> None:
        self.v = 'a'


@persistence.auto_persist('v')
class ThingB(persistence.Savable):
    def __init__(self) -> None:
        self.v = 'b'


class _NamedLoader(loaders.ObjectLoader):
    """Both loaders call their class 'thing' - the same identifier means different classes under different loaders."""

    TARGET: Any = None

    def load_object(self, identifier: str) -> Any:
        if identifier == 'thing':
            return self.TARGET
        return loaders.DefaultObjectLoader().load_object(identifier)

    def identify_object(self, obj: Any) -> str:
        if obj in (ThingA, ThingB):
            return 'thing'
        return loaders.DefaultObjectLoader().identify_object(obj)


class LoaderA(_NamedLoader):
    TARGET = ThingA


class LoaderB(_NamedLoader):
    TARGET = ThingB


HISTORY_OPS = ('ctx-A', 'ctx-B', 'recorded-A', 'recorded-B', 'default', 'global-A', 'global-B', 'global-reset-then-A-state',
               'shared-A', 'shared-B', 'shared-default')
SHARED_CTX: List[Any] = []  # one loader-less load context that the 'shared-*' operations of a history all pass


def history_op(op: str) -> Tuple[str, Any]:
    """Performs one operation; returns (what was expected, what happened)."""
    def kind(obj: Any) -> str:
        return type(obj).__name__
    if op in ('ctx-A', 'ctx-B', 'recorded-A', 'recorded-B'):
        loader = LoaderA() if op.endswith('A') else LoaderB()
        thing = ThingA() if op.endswith('A') else ThingB()
        saved = thing.save(persistence.LoadSaveContext(loader=loader))
        ctx = persistence.LoadSaveContext(loader=loader) if op.startswith('ctx') else None
        return kind(thing), kind(persistence.Savable.load(saved, ctx))
    if op.startswith('shared-'):
        # the caller re-uses one load context (without a loader) for every load
        if not SHARED_CTX:
            SHARED_CTX.append(persistence.LoadSaveContext())
        ctx = SHARED_CTX[0]
        if op == 'shared-default':
            thing, saved = ThingA(), ThingA().save()
        else:
            loader = LoaderA() if op.endswith('A') else LoaderB()
            thing = ThingA() if op.endswith('A') else ThingB()
            saved = thing.save(persistence.LoadSaveContext(loader=loader))
        return kind(thing), kind(persistence.Savable.load(saved, ctx))
    if op == 'default':
        return 'ThingA', kind(persistence.Savable.load(ThingA().save()))
    previous = loaders.get_object_loader()
    try:
        if op in ('global-A', 'global-B'):
            loaders.set_object_loader(LoaderA() if op.endswith('A') else LoaderB())
            thing = ThingA() if op.endswith('A') else ThingB()
            return kind(thing), kind(persistence.Savable.load(thing.save()))
        # a state written under a global custom loader cannot be resolved once the global loader is the default again
        loaders.set_object_loader(LoaderA())
        saved = ThingA().save()
        loaders.set_object_loader(None)
        try:
            got = kind(persistence.Savable.load(saved))
        except ValueError:
            return 'ValueError', 'ValueError'
        # (had the save recorded the global loader, the right class would be an answer as good as the refusal)
        return ('ThingA', got) if got == 'ThingA' else ('ValueError', got)
    finally:
        loaders.set_object_loader(previous)


def check_history(history: Tuple[str, ...]) -> List[dict]:
    out: List[dict] = []
    del SHARED_CTX[:]
    loop = VLoop()
    loop.install()
    try:
        for i, op in enumerate(history):
            try:
                want, got = history_op(op)
            except Exception as exc:  # noqa: BLE001
                want, got = '?', f'raised {type(exc).__name__}: {exc}'
            if want != got:
                out.append({'clause': 'loader-history-dependence', 'features': {'op': op, 'after': list(history[:i])[-1:] or ['-']},
                            'detail': {'history': list(history[:i + 1]), 'want': want, 'got': got},
                            'case': {'history': list(history[:i + 1])}})
                break
    finally:
        loop.shutdown()
    return out


def _history_job(history: Tuple[str, ...]) -> List[dict]:
    return explore.guarded_case({'history': list(history)}, check_history, history)


def histories(max_len: int) -> List[Tuple[str, ...]]:
    return [h for n in range(1, max_len + 1) for h in itertools.product(HISTORY_OPS, repeat=n)]


def cases(tier: str) -> List[tuple]:
    out = []
    for levels in shapes(tier):
        declared = set().union(*[set(l) for l in levels])
        states = FUTURE_STATES if 'f' in declared else ('pending',)
        for st in states:
            for mode in LOADER_MODES:
                out.append((levels, st, mode))
    return out


def _work(chunk: List[tuple]) -> Dict[str, Any]:
    res: Dict[str, Any] = {'n': 0, 'violations': [], 'nontrivial': 0}
    loop = VLoop()
    loop.install()
    try:
        for case in chunk:
            res['n'] += 1
            if len(set().union(*[set(l) for l in case[0]])) >= 2:
                res['nontrivial'] += 1
            try:
                vs = explore.guarded_case({'levels': case[0], 'future': case[1], 'mode': case[2]}, check_case, *case)
            except Exception as exc:  # noqa: BLE001
                vs = [{'clause': 'harness-raised', 'features': {'exc': type(exc).__name__}, 'detail': repr(exc),
                       'case': {'levels': case[0], 'future': case[1], 'mode': case[2]}}]
            res['violations'].extend(vs[:4])
    finally:
        loop.shutdown()
    return res


def run_check(tier: str, seed: int, workers: Any) -> Dict[str, Any]:
    all_cases = cases(tier)
    size = 200
    chunks = [all_cases[i:i + size] for i in range(0, len(all_cases), size)]
    k = seed % len(chunks)
    chunks = chunks[k:] + chunks[:k]
    loop = VLoop()
    loop.install()
    try:
        extra = check_unknown() + top_level_future_cases() + check_declaration_styles() + check_same_name()
    finally:
        loop.shutdown()
    total: Dict[str, Any] = {'n': 6, 'violations': extra, 'nontrivial': 0}
    hist = histories(2 if tier == 'quick' else 3)
    # every history in a process of its own: what one history loads must not be visible to the next
    with mp.get_context('fork').Pool(workers or min(16, os.cpu_count() or 1), maxtasksperchild=1) as pool:
        for vs in pool.imap_unordered(_history_job, hist, chunksize=1):
            total['n'] += 1
            total['violations'].extend(vs)
    with mp.get_context('fork').Pool(workers or min(16, os.cpu_count() or 1)) as pool:
        for res in pool.imap_unordered(_work, chunks):
            total['n'] += res['n']
            total['nontrivial'] += res['nontrivial']
            total['violations'].extend(res['violations'])
    best: Dict[Any, Any] = {}
    for v in total['violations']:
        key = (v['clause'], repr(sorted(v['features'].items())))
        size_key = (len(repr(v['case'])), repr(v['case']))
        if key not in best or size_key < best[key][0]:
            best[key] = (size_key, v)
    violations = [v for _, v in sorted(best.values(), key=lambda x: x[0])]
    sample = all_cases[(seed * 7919 + 17) % len(all_cases)]
    coverage = {
        'evaluations': total['n'], 'distinct_nontrivial': total['nontrivial'],
        'states': len({c[0] for c in all_cases}), 'transitions': total['n'], 'traces_validated_against_impl': total['n'],
        'rule': 'inheritance chains of 1-3 levels, each level declaring a subset of {a tuple holding a list and a dict, b nested dict/list, m bound '
                'method, s nested Savable (depth 2), f SavableFuture} with @auto_persist (quick: all single levels, '
                'two-level chains with <=3 declarations or a disjoint split of all 5, three-level chains with <=1 per '
                'level) x future state {pending, result, exception, cancelled} x loader {default, global custom, custom in '
                'the save context with and without a load context}; plus unknown class / loader identifiers, futures '
                'saved on their own, three-class hierarchies whose declarations are made by decorator / classmethod / persist() hook '
                'in every order of first use, a nested class that shares its name with a module-level class, and every history of <=2 (thorough 3) loads through loaders that give the same '
                'identifier to different classes (context / recorded / global / default / reset); non-trivial = at least two declared members',
        'samples': [{'levels': repr(sample[0]), 'future': sample[1], 'loader': sample[2]}],
        'exhaustive': True,
    }
    return {'violations': violations, 'coverage': coverage, 'errors': [], 'level': 'model_checking',
            'assumptions': ['member values are the small fixed ones of the generated classes',
                            'nested Savables are saved by the library with the default loader even under a custom context '
                            '(not judged)'],
            'bounds': {'tier': tier, 'shapes': len({c[0] for c in all_cases})}}


def replay(doc: Dict[str, Any]) -> List[dict]:
    from ..cli import to_tuple
    case = doc['case']
    loop = VLoop()
    loop.install()
    try:
        if 'unknown' in case:
            return check_unknown()
        if 'styles' in case:
            return check_declaration_styles()
        if 'same_name' in case:
            return check_same_name()
        if 'top_future' in case:
            return top_level_future_cases()
        if 'history' in case:
            return check_history(tuple(case['history']))
        return check_case(to_tuple(case['levels']), case['future'], case['mode'])
    finally:
        loop.shutdown()
