# -*- coding: utf-8 -*-
"""C04 - a kill request is never lost and no live process is unkillable (DESIGN.md 3, C04)."""
from __future__ import annotations

from typing import Any, Dict, List

from .. import ctl, programs
from ..ctl import ProcessState

from ._common import process_comms_text_key as _text_key  # noqa: E402

ID = 'C04'
KILL_TEXTS = ('t1', 't2')


def is_killish(rec: dict) -> bool:
    return rec['op'] in ('kill', 'cancel')


class Oracle:
    def __init__(self, unit: Any) -> None:
        self.unit = unit

    def sample(self, w: ctl.World) -> None:
        pass

    def finish_capped(self, w: ctl.World) -> None:
        w.violate('livelock', {'ops': ops_signature(w)}, 'tick horizon exceeded')

    def finish(self, w: ctl.World) -> None:
        proc = w.proc
        calls = w.calls
        program_has_killcmd = any(t == 'killcmd' for _, _, t in w.program)
        # (a) a kill on a live process never raises
        for rec in calls:
            if is_killish(rec) and rec['live'] and rec['raised'] is not None:
                w.violate('a:kill-raises', features(w, rec, raised=rec['raised']), repr(rec['raised']))
        # (a request whose pending action was cancelled again by whoever made it - op 'unask' - is withdrawn and promises
        #  nothing; that the process stays controllable afterwards is what clauses (b) for later kills and (f) check)
        first = next((r for r in calls if is_killish(r) and r['live'] and r['raised'] is None and not r.get('withdrawn')
                      and not (r['op'] == 'cancel' and r['ret'] != ('value', True))), None)
        w.result.nontrivial = first is not None and first['state'] != ProcessState.CREATED
        if first is not None:
            # (b) nothing new starts after the request, and the process ends KILLED (or EXCEPTED if the step failed)
            if first['op'] == 'kill':
                # a kill requested from a listener callback during a transition arrives while the state that is being
                # entered is the current step: "as soon as the current step yields" lets that one step start
                allowed = 1 if first['origin'].startswith('listener') else 0
                started = [t for t in w.trace[first['ntrace']:] if t[3] == 'enter']
                if len(started) > allowed:
                    w.violate('b:step-started-after-kill', features(w, first), [t[0] for t in started])
            raised_after = [e for e in w.raised[:]]  # user-code exceptions of this execution
            state = proc.state
            if w.live():
                w.violate('b:kill-lost', features(w, first, end=str(state)),
                          f'process still {state} (paused={proc.paused}) at quiescence after a kill request')
            elif state == ProcessState.EXCEPTED:
                if proc.exception() not in raised_after:
                    w.violate('b:excepted-without-user-failure', features(w, first, exc=type(proc.exception()).__name__),
                              repr(proc.exception()))
            elif state == ProcessState.FINISHED:
                w.violate('b:finished-after-kill', features(w, first, end='FINISHED'), None)
            elif state == ProcessState.KILLED:
                step_failed = any(isinstance(e, programs.StepError) for e in raised_after)
                if step_failed and first['op'] in ('kill', 'cancel') and not first['origin'].startswith('listener') \
                        and step_raised_after(w, first):
                    w.violate('b:step-failure-swallowed', features(w, first, end='KILLED'), None)
        # (c) returned values resolve True exactly when the process ended KILLED
        if not w.live():
            killed = proc.state == ProcessState.KILLED
            for rec in calls:
                if rec['op'] != 'kill' or not rec['live'] or rec['raised'] is not None or rec.get('withdrawn'):
                    continue
                final = ctl.fut_status(rec['obj'])
                resolved_true = final in (('value', True), ('result', True))
                if killed and not resolved_true:
                    w.violate('c:kill-result-not-true', features(w, rec, ret=str(final)), f'kill() returned {final}')
                if not killed and resolved_true:
                    w.violate('c:kill-result-true-but-not-killed', features(w, rec, end=str(proc.state)), None)
            # (d) the kill text is recorded
            if killed:
                # (also of kills whose action was cancelled again: whether that withdraws the kill is not laid down)
                texts = {r['args'][0] for r in calls if r['op'] == 'kill' and r['live'] and r['args']}
                if program_has_killcmd:
                    texts.add(programs.KILLCMD_TEXT)
                msg = proc.killed_msg()
                text = msg.get(_text_key()) if isinstance(msg, dict) else msg
                cancelled = any(r['op'] == 'cancel' for r in calls)  # (no text is laid down for a kill through the future)
                if text not in texts and not cancelled:
                    w.violate('d:kill-text', features(w, first or calls[0] if calls else None, text=repr(text)), None)
        # (f) from every live end configuration a further kill terminates the process
        if w.live():
            end_state, end_paused = proc.state, proc.paused
            rec = w.call('kill', 'probe')
            w.drain()
            for g in w.pending_gates():
                w.gates[g].set_result(f'g{g}')
                w.drain()
            if rec['raised'] is not None:
                w.violate('f:probe-kill-raises', {'end_state': str(end_state), 'paused': end_paused,
                                                  'exc': type(rec['raised']).__name__, 'ops': ops_signature(w)},
                          repr(rec['raised']))
            if w.live():
                w.violate('f:unkillable', {'end_state': str(end_state), 'paused': end_paused, 'ops': ops_signature(w)},
                          f'still {proc.state} after probing kill')
        w.result.outcome = (str(proc.state), tuple(t[0] for t in w.trace if t[3] == 'enter'),
                            tuple((r['op'], str(r['ret'])) for r in calls))
        w.result.sample = {'program': programs.describe(w.program), 'listener': w.script,
                           'choices': [repr(x) for x in w.chooser.labels], 'end': str(proc.state)}


def step_raised_after(w: ctl.World, rec: dict) -> bool:
    """True if the step that was in flight when the kill arrived is the one that raised."""
    enters = [t for t in w.trace[:rec['ntrace']] if t[3] == 'enter']
    if not enters or not w.program:
        return False
    last = enters[-1][0]
    idx = int(last[1:])
    return w.program[idx][2] == 'raise' and not any(t[3] == 'enter' for t in w.trace[rec['ntrace']:])


def ops_signature(w: ctl.World) -> List[str]:
    return [f"{r['origin'].split(':')[0]}:{r['op']}" for r in w.calls if r['origin'] != 'probe']


def features(w: ctl.World, rec: Any, **extra: Any) -> Dict[str, Any]:
    f: Dict[str, Any] = {'ops': ops_signature(w)}
    if rec is not None:
        f['origin'] = rec['origin'].split(':')[0]
        f['at_state'] = str(rec['state'])
        f['at_paused'] = rec['paused']
    for k, v in extra.items():
        f[k] = type(v).__name__ if isinstance(v, BaseException) else v
    return f


# ---------------------------------------------------------------------------------------------------------------------

ALPHABET = (('kill', 't1'), ('kill', 't2'), ('pause',), ('play',), ('resume', 'v1'), ('cancel',), ('unask',))
LISTENER_SCRIPTS = tuple((ev, n, op) for ev in ('running', 'waiting', 'paused', 'played')
                         for n in (1, 2) for op in (('kill', 't1'),))


def cfg_for(unit: Any) -> ctl.Config:
    return ctl.Config(alphabet=ALPHABET, closing=('gates',))


class Factory:
    def __init__(self) -> None:
        self.make_run = ctl.make_runner(cfg_for, Oracle)


def factory() -> Factory:
    return Factory()


BURST_ALPHABET = (('kill', 't1'), ('pause',), ('play',), ('resume', 'v1'), ('cancel',), ('unask',))


def burst_factory() -> Any:
    from ._common import CtlProperty
    return CtlProperty(ID, Oracle, cfg_for).as_burst(BURST_ALPHABET)


def units_for(tier: str) -> List[Any]:
    kinds = ('S', 'Y1', 'G')
    base12 = list(programs.linear_programs(2, kinds, ('cont', 'wait'), ('ret', 'raise', 'killcmd')))
    base3 = list(programs.linear_programs(3, ('S', 'Y1', 'G'), ('cont', 'wait'), ('ret',), min_len=3))
    units: List[Any] = [(p, None) for p in base12 + base3]
    small = list(programs.linear_programs(2, ('S', 'Y1'), ('cont', 'wait'), ('ret',)))
    for p in small:
        for script in LISTENER_SCRIPTS:
            units.append((p, script))
    # two cooperating listener callbacks: a pause requested during a transition and a kill requested while it is carried out
    double = [((ev, 1, ('pause',)), ('paused', 1, ('kill', 't1'))) for ev in ('running', 'waiting')]
    double += [((ev, 1, ('pause',)), ('paused', 1, ('play',)), ('played', 1, ('kill', 't1'))) for ev in ('running',)]
    for p in small:
        for script in double:
            units.append((p, script))
    acts = list(programs.with_actions(small, ('kill', 'pause')))
    units += [(p, None) for p in acts]
    return units


WC_ALPHABET = (('kill', 't1'), ('kill', 't2'), ('pause',), ('play',), ('cancel',), ('unask',))


def wc_cfg(unit: Any) -> ctl.Config:
    return ctl.Config(alphabet=WC_ALPHABET, closing=('gates',))


class WcFactory:
    def __init__(self) -> None:
        from .. import wcharness
        self.make_run = ctl.make_runner(wc_cfg, Oracle, cls_for=wcharness.cls_for, world_cls=wcharness.WcWorld)


def wc_factory() -> WcFactory:
    return WcFactory()


def wc_units(tier: str) -> List[Any]:
    import itertools
    units: List[Any] = []
    for n in (1, 2):
        for items in itertools.product((('gate', 'ok'), ('child', 'ok')), repeat=n):
            for how in ('return', 'call'):
                units.append(((items, how, False), None))
    return units


def check_recreated() -> Dict[str, Any]:
    """Processes recreated from a checkpoint must be as killable as freshly constructed ones: for every small program, every
    live quiescent point (waiting, or paused after a pause request before tick t), bundle -> pickle -> unbundle on a fresh
    loop, then kill() / future().cancel() (optionally after play()), drain: the process must end KILLED."""
    import pickle
    from plumpy import persistence
    from ..vloop import VLoop
    out: Dict[str, Any] = {'n': 0, 'violations': [], 'nontrivial': 0}
    progs = list(programs.linear_programs(2, ('S', 'Y1'), ('cont', 'wait'), ('ret',)))

    class Env:
        def __init__(self) -> None:
            self.raised: List[Any] = []
            self.loop: Any = None
            self.pre_pause_status = None
            self.n_choice = 0

        def attach(self, proc: Any) -> None:
            pass

        def record(self, proc: Any, name: str, args: tuple, kwargs: dict, phase: str) -> None:
            if phase == 'enter':
                proc._trace.append((name,))

        def gate(self, proc: Any, idx: int) -> Any:
            return self.loop.create_future()

    for program in progs:
        cls = programs.make_class(program)
        for pause_at in (None, 0, 1, 2, 3):
            for request in ('kill', 'cancel', 'play+kill', 'play+cancel'):
                env = Env()
                prev, programs.ENV = programs.ENV, env
                loop = VLoop()
                env.loop = loop
                loop.install()
                loop2 = None
                try:
                    proc = cls(pid='r0', loop=loop)
                    loop.create_task(proc.step_until_terminated())
                    ticks = 0
                    while True:
                        if pause_at is not None and ticks == pause_at and not proc.has_terminated():
                            proc.pause()
                            pause_at = -1
                        if not loop.tick():
                            break
                        ticks += 1
                    if proc.has_terminated() or not (proc.paused or proc.state == ctl.ProcessState.WAITING):
                        continue
                    point = 'paused' if proc.paused else 'waiting'
                    if request.startswith('play') and not proc.paused:
                        continue
                    bundle = pickle.loads(pickle.dumps(persistence.Bundle(proc)))
                    loop.shutdown()
                    loop2 = VLoop()
                    env.loop = loop2
                    loop2.install()
                    again = bundle.unbundle(persistence.LoadSaveContext(loop=loop2))
                    task = loop2.create_task(again.step_until_terminated())
                    loop2.drain()
                    out['n'] += 1
                    out['nontrivial'] += 1
                    ret: Any = None
                    if request.startswith('play'):
                        again.play()
                    if request.endswith('kill'):
                        ret = again.kill('t1')
                    else:
                        again.future().cancel()
                    loop2.drain()
                    if again.paused and not again.has_terminated():
                        again.play()
                        loop2.drain()
                    case = {'part': 'recreated', 'program': program, 'pause_at': pause_at, 'request': request}
                    if again.state != ctl.ProcessState.KILLED:
                        out['violations'].append({'clause': 'recreated:kill-lost', 'features': {'request': request, 'point': point},
                                                  'detail': f'recreated process is {again.state} (paused={again.paused}) after {request}',
                                                  'case': case})
                    elif request.endswith('kill') and ctl.fut_status(ret) not in (('value', True), ('result', True)):
                        out['violations'].append({'clause': 'recreated:kill-result', 'features': {'request': request, 'point': point},
                                                  'detail': repr(ctl.fut_status(ret)), 'case': case})
                    elif not task.done():
                        out['violations'].append({'clause': 'recreated:stepping-blocked', 'features': {'request': request, 'point': point},
                                                  'detail': None, 'case': case})
                finally:
                    programs.ENV = prev
                    loop.shutdown()
                    if loop2 is not None:
                        loop2.shutdown()
    return out


def run_check(tier: str, seed: int, workers: Any) -> Dict[str, Any]:
    from .. import runner
    part1 = run_processes(tier, seed, workers)
    budget = {'K': 2, 'J': 2} if tier == 'quick' else {'K': 3, 'J': 2}
    part2 = runner.run_explorer(
        wc_factory, (), wc_units(tier), budget, seed, workers,
        rule='work chains waiting for 1-2 loop futures / launched children: every placement of <=K requests from '
             + repr(WC_ALPHABET) + ' and every order / placement of <=J early completions; same kill oracle',
        assumptions=[], bounds=dict(budget, n_items=2), describe=lambda u: {'items': u[0][0], 'how': u[0][1]})
    for v in part2['violations']:
        v['features'] = dict(v.get('features', {}), part='workchain')
    tiny = [((('S', (), 'wait'), ('S', (), 'ret')), None), ((('Y1', (), 'ret'),), None)]
    deep = {'K': 4, 'J': 0} if tier == 'quick' else {'K': 5, 'J': 0}
    part_deep = runner.run_explorer(
        factory, (), tiny, deep, seed, workers,
        rule=f'the two smallest programs with <= {deep["K"]} requests', assumptions=[], bounds=deep,
        describe=lambda u: programs.describe(u[0]))
    nb = 5 if tier == 'quick' else 6
    burst_units = [((('S', (), 'wait'), ('S', (), 'ret')), None), ((('Y1', (), 'wait'), ('S', (), 'ret')), None)]
    part_burst = runner.run_explorer(
        burst_factory, (), burst_units, {'K': nb}, seed, workers, split_depth=3,
        rule=f'bursts: every sequence of <= {nb} requests from ' + repr(BURST_ALPHABET) + ' issued right behind one another wherever '
             'the loop is quiescent, on two waiting programs (long sequences at few places)', assumptions=[],
        bounds={'K': nb, 'placements': 'quiescent points only'}, describe=lambda u: programs.describe(u[0]))
    for v in part_burst['violations']:
        v['features'] = dict(v.get('features', {}), part='burst')
    out = runner.merge([part1, part2, part_deep, part_burst])
    if tier != 'quick':
        from ._common import add_sequel, sequel_part
        from ..explore import guarded_part as _gp
        seq = _gp(lambda: sequel_part('pv.props.c04', 'burst_factory', ((('S', (), 'wait'), ('S', (), 'ret')), None), 3, 2, workers), 900, {'part': 'sequel'})
        add_sequel(out, seq, 'every burst history of <=3 requests of a first process followed, in the same fresh interpreter, by '
                             'every burst history of <=2 requests of a second process of the class: observed exactly as after no '
                             'earlier process')
    from ..explore import guarded_part
    part3 = guarded_part(check_recreated, 240, {'part': 'recreated'})
    out['coverage']['evaluations'] += part3['n']
    out['coverage']['traces_validated_against_impl'] += part3['n']
    out['coverage']['transitions'] += part3['n']
    out['coverage']['recreated_process_runs'] = part3['n']
    out['coverage']['rule'] += ' || recreated processes: every small program x every waiting / paused quiescent point x ' \
                               'bundle-pickle-unbundle on a fresh loop x {kill, cancel, play+kill, play+cancel}'
    best: Dict[Any, Any] = {}
    for v in part3['violations']:
        best.setdefault((v['clause'], repr(sorted(v['features'].items()))), v)
    out['violations'].extend(best.values())
    return out


def run_processes(tier: str, seed: int, workers: Any) -> Dict[str, Any]:
    from .. import runner
    budget = {'K': 2, 'J': 1} if tier == 'quick' else {'K': 3, 'J': 1}
    units = units_for(tier)
    return runner.run_explorer(
        factory, (), units, budget, seed, workers,
        rule='every placement of <=K control requests from ' + repr(ALPHABET) + ' and <=J early gate completions '
             'between any two loop callbacks of every generated program (x scripted listener kill); non-trivial = '
             'a kill/cancel was accepted after the process left CREATED',
        assumptions=['single event loop thread; control calls land between two loop callbacks',
                     'hooks of generated programs do not raise'],
        bounds={'K': budget['K'], 'J': budget['J'], 'program_len': 3}, describe=lambda u: programs.describe(u[0]))


from ._common import is_wc_unit  # noqa: E402


def replay(doc: Dict[str, Any]) -> List[Dict[str, Any]]:
    from ..cli import to_tuple
    from ..explore import Chooser
    if (doc.get('case') or {}).get('part') == 'sequel':
        from ._common import sequel_part
        return sequel_part('pv.props.c04', 'burst_factory', ((('S', (), 'wait'), ('S', (), 'ret')), None), 3, 2, 2, only=(doc['case']['first'], doc['case']['second']))['violations']
    if (doc.get('case') or {}).get('part') == 'recreated':
        return check_recreated()['violations']
    unit = to_tuple(doc['unit'])
    if (doc.get('features') or {}).get('part') == 'burst':
        return burst_factory().replay(doc)
    run = (wc_factory() if is_wc_unit(unit) else factory()).make_run(unit)
    res = run(Chooser(tuple(doc['choices'])))
    return res.violations
