# -*- coding: utf-8 -*-
"""C06 - a wake-up is never lost to a concurrent pause or interruption (DESIGN.md 3, C06).

Part (i): processes waiting for ``resume``.  Part (ii) (workchains waiting for futures/children) lives in ``c06wc``
and is run by the same check.
"""
from __future__ import annotations

import os
from typing import Any, Dict, List

from .. import ctl, programs, runner
from ..ctl import ProcessState
from ._common import CtlProperty, default_sample, describe_unit, enter_trace, features

ID = 'C06'


class AlwaysEqual:
    """A value whose ``==`` says yes to everything (like ``unittest.mock.ANY``; numpy arrays and other values with a
    rich ``==`` are of the same kind): it must be delivered like any other value."""

    def __eq__(self, other: Any) -> bool:
        return True

    def __ne__(self, other: Any) -> bool:
        return False

    __hash__ = object.__hash__

    def __repr__(self) -> str:
        return 'ANYTHING'


ANYTHING = AlwaysEqual()
ALPHABET = (('resume', 'v1'), ('resume', None), ('resume',), ('resume', ANYTHING), ('pause',), ('play',))


class Cfg(ctl.Config):
    pass


class Oracle:
    def __init__(self, unit: Any) -> None:
        self.unit = unit

    def sample(self, w: ctl.World) -> None:
        pass

    def finish_capped(self, w: ctl.World) -> None:
        w.violate('livelock', features(w), 'tick horizon exceeded')

    def finish(self, w: ctl.World) -> None:
        proc = w.proc
        kills = [r for r in w.calls if r['op'] == 'kill' and r['raised'] is None]
        if any(not r.get('withdrawn') for r in kills) or (kills and proc.state == ProcessState.KILLED):
            # (whether cancelling the action that kill() returned withdraws the kill is not laid down: a run that ends KILLED
            #  after such a kill is as good as one that goes on)
            # (part iii) a kill that stands decides the run (C04's business); one that was withdrawn again must leave the
            # wake-up untouched, which is what is judged below
            w.result.outcome = (str(proc.state), 'killed', tuple((r['op'], str(r['ret'])) for r in w.calls))
            return
        # group accepted resumes by the WAITING state instance they were delivered to (number of state entries so far)
        accepted: Dict[int, List[dict]] = {}
        for rec in w.calls:
            if rec['op'] == 'resume' and rec['raised'] is None and rec['state'] == ProcessState.WAITING and rec['live']:
                accepted.setdefault(rec['nentered'], []).append(rec)
        # which continuation belongs to which WAITING instance: the k-th entered state (1-based count) WAITING after
        # step s_i is followed by s_{i+1}
        waits = [i + 1 for i, (frm, to) in enumerate(w.entered) if to == ProcessState.WAITING]
        steps_waiting = [i for i, (_, _, term) in enumerate(w.program) if term in ('wait', 'wait_d')]
        trace = enter_trace(w)
        w.result.nontrivial = any(r['op'] in ('pause', 'play') and r['origin'] == 'env' for r in w.calls) and bool(accepted)
        for n, (nentered, step_idx) in enumerate(zip(waits, steps_waiting)):
            recs = accepted.get(nentered)
            if not recs:
                continue
            first = recs[0]
            cont = f's{step_idx + 1}'
            runs = [t for t in trace if t[0] == cont]
            if not runs:
                w.violate('lost-wakeup', features(w, first, end=str(proc.state), paused=proc.paused),
                          f'resume{first["args"]} accepted in WAITING but {cont} never ran; final state {proc.state}')
                continue
            if len(runs) > 1:
                w.violate('continuation-ran-twice', features(w, first), runs)
            if len(runs[0][1]) != len(first['args']) or any(a is not b and a != b for a, b in zip(runs[0][1], first['args'])):
                w.violate('wrong-resume-value', features(w, first, got=repr(runs[0][1]), want=repr(first['args'])),
                          f'{cont} received {runs[0][1]}, first accepted resume carried {first["args"]}')
        if accepted and proc.state == ProcessState.WAITING:
            w.violate('stays-waiting', features(w, end=str(proc.state), paused=proc.paused),
                      'a resume was accepted, the process was played, yet it is WAITING at quiescence')
        if w.live() and not any(v['clause'] in ('lost-wakeup', 'stays-waiting') for v in w.result.violations):
            w.violate('not-terminated', features(w, end=str(proc.state), paused=proc.paused),
                      f'process still {proc.state} paused={proc.paused} after closing play/resume')
        w.result.outcome = (str(proc.state), tuple(trace), tuple((r['op'], r['args'], str(r['ret'])) for r in w.calls))
        w.result.sample = default_sample(w)


class C06World:
    pass


def cfg_for(unit: Any) -> ctl.Config:
    cfg = ctl.Config(alphabet=ALPHABET, closing=('gates', 'play', 'resume_if_none'), resume_default=('dflt',))
    cfg.cost_of = lambda op: 'J' if op[0] == 'resume' else 'K'
    return cfg


PROP = CtlProperty(ID, Oracle, cfg_for)

# part (iii): "... and other control requests": a kill that is withdrawn again (the caller cancels the action it was handed)
KILL_ALPHABET = (('resume', 'v1'), ('kill', 't1'), ('unask',), ('pause',), ('play',))


def cfg_kill(unit: Any) -> ctl.Config:
    cfg = ctl.Config(alphabet=KILL_ALPHABET, closing=('gates', 'play', 'resume_if_none'), resume_default=('dflt',))
    cfg.cost_of = lambda op: 'J' if op[0] == 'resume' else 'K'
    return cfg


KILL_PROP = CtlProperty(ID, Oracle, cfg_kill)


def kill_factory() -> CtlProperty:
    return KILL_PROP


def cfg_burst(unit: Any) -> ctl.Config:
    return ctl.Config(alphabet=KILL_ALPHABET, closing=('gates', 'play_if_asked', 'resume_if_none'), resume_default=('dflt',),
                      burst=True, early_gates=False)


BURST_PROP = CtlProperty(ID, Oracle, cfg_burst)


def burst_factory() -> CtlProperty:
    return BURST_PROP


def factory() -> CtlProperty:
    return PROP


def units_for(tier: str) -> List[Any]:
    kinds = ('S', 'Y1')
    progs = [p for p in programs.linear_programs(3, kinds, ('cont', 'wait'), ('ret',), min_len=2)
             if any(t == 'wait' for _, _, t in p)]
    units: List[Any] = [(p, None) for p in progs]
    scripts = [(ev, 1, op) for ev in ('waiting', 'paused', 'played') for op in (('pause',), ('play',), ('resume', 'v1'))]
    for p in list(programs.linear_programs(2, ('S', 'Y1'), ('wait',), ('ret',), min_len=2)):
        for s in scripts:
            units.append((p, s))
    return units


def wc_units(tier: str) -> List[Any]:
    import itertools
    units: List[Any] = []
    kinds = [('gate', 'ok'), ('child', 'ok')]
    for n in range(1, (2 if tier == 'quick' else 3) + 1):
        for items in itertools.product(kinds, repeat=n):
            if sum(1 for k, _ in items if k == 'child') > 1 and n == 3:
                continue
            for how in ('return', 'call'):
                units.append(((items, how, False), None))
    for items in ((('done', 'ok'),), (('done', 'ok'), ('done', 'ok')), (('done', 'ok'), ('gate', 'ok'))):
        units.append(((items, 'return', False), None))  # everything (or part) already complete when the wait is entered
    units.append((((('gate', 'ok'),), 'return', False, 'while'), None))
    return units


def wc_factory() -> Any:
    from . import c10
    return c10.PROP


def run_check(tier: str, seed: int, workers: Any) -> Dict[str, Any]:
    budget = {'K': 2, 'J': 2} if tier == 'quick' else {'K': 3, 'J': 2}
    part1 = runner.run_explorer(
        factory, (), units_for(tier), budget, seed, workers,
        rule='(i) every placement of <=J resume calls (values v1, None, no value) and <=K pause/play requests between any '
             'two loop callbacks of every generated waiting program (x scripted listener requests); run closed by play and '
             'by a resume only if none was accepted; non-trivial = an accepted resume together with a pause/play request',
        assumptions=['single event loop thread; control calls land between two loop callbacks'],
        bounds=dict(budget, program_len=3), describe=describe_unit)
    wbudget = {'K': 2, 'J': 9}
    part2 = runner.run_explorer(
        wc_factory, (), wc_units(tier), wbudget, seed, workers,
        rule='(ii) work chains whose step awaits n loop futures / launched children (all completing successfully): every '
             'order and placement of the completions x <=K pause/play requests; after the closing play the chain must have '
             'continued exactly once with every result in the context',
        assumptions=[], bounds=dict(wbudget, n_items=2 if tier == 'quick' else 3),
        describe=lambda u: {'items': u[0][0], 'how': u[0][1]})
    for v in part2['violations']:
        v['features'] = dict(v.get('features', {}), part='workchain')
    tiny = [(p, None) for p in programs.linear_programs(2, ('S', 'Y1'), ('wait',), ('ret',), min_len=2)]
    kbudget = {'K': 3, 'J': 1} if tier == 'quick' else {'K': 4, 'J': 1}
    part3 = runner.run_explorer(
        kill_factory, (), tiny, kbudget, seed, workers,
        rule='(iii) the two-step waiting programs with <=K requests from ' + repr(KILL_ALPHABET[1:]) + ' and <=J resumes: a kill '
             'that is withdrawn again (unask) must not cost the wake-up; executions in which a kill stands are not judged here',
        assumptions=[], bounds=dict(kbudget, program_len=2), describe=describe_unit)
    for v in part3['violations']:
        v['features'] = dict(v.get('features', {}), part='kill-withdrawn')
    # part (iv): long sequences at few places - up to N requests right behind one another wherever the loop is quiescent
    w1 = ((('S', (), 'wait'), ('S', (), 'ret')), None)
    w2 = ((('S', (), 'wait'), ('S', (), 'wait'), ('S', (), 'ret')), None)
    n1, n2 = (5, 3) if tier == 'quick' else (6, 5)
    rule4 = ('(iv) bursts: every sequence of <=K requests from ' + repr(KILL_ALPHABET) + ' issued right behind one another '
             'wherever the loop is quiescent, on the program with one wait (K=%d) and with two waits (K=%d); the closing play is '
             'given only if a pause request stands (a process that reports paused although the last request was a play is not '
             'rescued)' % (n1, n2))
    part4 = runner.merge([
        runner.run_explorer(burst_factory, (), [w1], {'K': n1}, seed, workers, split_depth=3, rule=rule4, assumptions=[],
                            bounds={'K': n1, 'placements': 'quiescent points only'}, describe=describe_unit),
        runner.run_explorer(burst_factory, (), [w2], {'K': n2}, seed, workers, split_depth=3, rule='(iv) two waits', assumptions=[],
                            bounds={'K': n2, 'placements': 'quiescent points only'}, describe=describe_unit)])
    for v in part4['violations']:
        v['features'] = dict(v.get('features', {}), part='burst')
    out = runner.merge([part1, part2, part3, part4])
    from ..explore import guarded_part
    part5 = guarded_part(lambda: check_sequel(tier, workers), 600, {'part': 'sequel'})
    out['violations'].extend(part5['violations'])
    for key in ('evaluations', 'traces_validated_against_impl', 'transitions'):
        out['coverage'][key] += part5['n']
    out['coverage']['sequel_pairs'] = part5['n']
    out['coverage']['rule'] += (' || (v) every burst history of <=3 pause / play / resume requests of a first process followed, in '
                                'the same (fresh) interpreter, by every burst history of <=2 requests of a second process of the '
                                'class: the second is observed exactly as after no earlier process')
    return out


SEQ_ALPHABET = (('resume', 'v1'), ('pause',), ('play',))


def cfg_sequel(unit: Any) -> ctl.Config:
    return ctl.Config(alphabet=SEQ_ALPHABET, closing=('gates', 'play_if_asked', 'resume_if_none'), resume_default=('dflt',),
                      burst=True, early_gates=False)


def sequel_factory() -> CtlProperty:
    return CtlProperty(ID, Oracle, cfg_sequel)


def _burst_histories(unit: Any, k: int, without: tuple = ()) -> List[List[int]]:
    from ..explore import dfs
    found: List[List[int]] = []

    def keep(ch: Any, res: Any) -> None:
        if not any(lab[0] in without for c, lab in zip(ch.choices, ch.labels) if c):
            found.append(list(ch.choices))

    dfs(sequel_factory().make_run(unit), {'K': k}, on_result=keep)
    return sorted(found, key=lambda c: (sum(1 for x in c if x), c))


def check_sequel(tier: str, workers: Any, only: Any = None) -> Dict[str, Any]:
    """Part (v): what a waiting process does with its wake-ups does not depend on the processes that ran before it in the same
    interpreter.  Every burst history of <=3 requests (pause / play / resume) of a first process, followed - in the same
    interpreter - by every burst history of <=2 pause / play requests of a second process of the same class: the second one must be
    observed exactly as after no earlier process.  Each (first, second) pair runs in a fresh interpreter."""
    from concurrent.futures import ThreadPoolExecutor
    from .. import sequel
    unit = ((('S', (), 'wait'), ('S', (), 'ret')), None)
    out: Dict[str, Any] = {'n': 0, 'violations': []}
    firsts = _burst_histories(unit, 3 if tier == 'quick' else 4)
    seconds = _burst_histories(unit, 2, without=('resume',))  # the second process is only paused and played: it must wait
    if only is not None:
        firsts, seconds = [only[0]], [only[1]]
    then = [[unit, h2] for h2 in seconds]
    ref = sequel.ask('pv.props.c06', 'sequel_factory', None, then)

    def one(h1: List[int]) -> Any:
        return h1, sequel.ask('pv.props.c06', 'sequel_factory', [unit, h1], then)

    with ThreadPoolExecutor(max_workers=workers or min(16, os.cpu_count() or 1)) as pool:
        for h1, got in pool.map(one, firsts):
            for h2, a, b in zip(seconds, ref, got):
                out['n'] += 1
                if a != b:
                    out['violations'].append({
                        'clause': 'depends-on-an-earlier-process', 'features': {'part': 'sequel'},
                        'detail': {'after_nothing': a, 'after_the_first_process': b},
                        'case': {'part': 'sequel', 'first': h1, 'second': h2}})
    out['violations'] = sorted(out['violations'], key=lambda v: (len(v['case']['first']) + len(v['case']['second']),
                                                                  v['case']['first'], v['case']['second']))[:3]
    return out


def replay(doc: Dict[str, Any]) -> List[Dict[str, Any]]:
    from ._common import is_wc_unit
    if (doc.get('case') or {}).get('part') == 'sequel':
        return check_sequel('quick', 2, only=(doc['case']['first'], doc['case']['second']))['violations']
    if is_wc_unit(doc.get('unit')):
        return wc_factory().replay(doc)
    if (doc.get('features') or {}).get('part') == 'kill-withdrawn':
        return KILL_PROP.replay(doc)
    if (doc.get('features') or {}).get('part') == 'burst':
        return BURST_PROP.replay(doc)
    return PROP.replay(doc)


