# -*- coding: utf-8 -*-
"""C01 - state changes follow the lifecycle graph; terminal states are final (DESIGN.md 3, C01)."""
from __future__ import annotations

from typing import Any, Dict, List

from .. import ctl, programs, runner
from ..ctl import ProcessState as PS
from ._common import CtlProperty, default_sample, describe_unit, features

ID = 'C01'
ALPHABET = (('pause',), ('play',), ('kill', 't1'), ('resume', 'v1'), ('fail',))

LIVE = (PS.CREATED, PS.RUNNING, PS.WAITING)
EDGES = {
    (None, PS.CREATED),
    (PS.CREATED, PS.RUNNING),
    (PS.RUNNING, PS.RUNNING), (PS.RUNNING, PS.WAITING), (PS.RUNNING, PS.FINISHED),
    (PS.WAITING, PS.RUNNING), (PS.WAITING, PS.WAITING), (PS.WAITING, PS.FINISHED),
} | {(s, t) for s in LIVE for t in (PS.KILLED, PS.EXCEPTED)}


def terminal_outcome(proc: Any) -> tuple:
    state = proc.state
    if state == PS.FINISHED:
        return (state, repr(proc.result()), proc.successful())
    if state == PS.EXCEPTED:
        return (state, id(proc.exception()), type(proc.exception()).__name__)
    if state == PS.KILLED:
        return (state, repr(proc.killed_msg()))
    return (state,)


class Oracle:
    def __init__(self, unit: Any) -> None:
        self.unit = unit
        self.terminal: Any = None
        self.terminal_calls = 0
        self.reported = False
        self.phase = 'run'

    def sample(self, w: ctl.World) -> None:
        proc = w.proc
        if self.terminal is None:
            if proc.has_terminated():
                self.terminal = terminal_outcome(proc)
                self.terminal_calls = len(w.calls)
            return
        now = terminal_outcome(proc)
        if now != self.terminal and not self.reported:
            self.reported = True
            cause = w.calls[-1]['op'] if len(w.calls) > self.terminal_calls else 'loop-callback'
            w.violate('3:terminal-state-changed',
                      {'from': str(self.terminal[0]), 'to': str(now[0]), 'cause': cause, 'phase': self.phase,
                       'before_terminal_ops': [r['op'] for r in w.calls[:self.terminal_calls] if r['live']][-2:]},
                      {'was': repr(self.terminal), 'now': repr(now)})

    def finish_capped(self, w: ctl.World) -> None:
        w.violate('livelock', features(w), 'tick horizon exceeded')

    def finish(self, w: ctl.World) -> None:
        proc = w.proc
        # (1) the first entered state is CREATED, (2) every observed transition is an edge of the documented graph
        if not w.entered or w.entered[0] != (None, PS.CREATED):
            w.violate('1:first-state', {'first': repr(w.entered[:1])}, None)
        for frm, to in w.entered:
            if (frm, to) not in EDGES:
                w.violate('2:illegal-edge', {'from': str(frm), 'to': str(to)}, repr(w.entered))
                break
        # (3) post-mortem barrage: nothing changes a terminal state
        if proc.has_terminated():
            self.phase = 'post'
            self.sample(w)
            for op in (('pause',), ('play',), ('kill', 'late'), ('resume', 'late'), ('fail',)):
                w.call(op[0], *op[1:], origin='post')
            for name in ('step', 'execute'):
                try:
                    ret = getattr(proc, name)()
                    if hasattr(ret, 'close'):
                        fut = w.loop.create_task(ret)
                        w.drain()
                        if fut.done() and not fut.cancelled():
                            fut.exception()
                except Exception:  # noqa: BLE001 - a refused call is fine, only the state is judged
                    pass
                w.sample()
            w.drain()
        w.result.nontrivial = bool(w.ops_issued) and len(w.entered) > 1
        w.result.outcome = (tuple(w.entered), repr(self.terminal), tuple((r['op'], str(r['ret'])) for r in w.calls))
        w.result.sample = default_sample(w)


def cfg_for(unit: Any) -> ctl.Config:
    return ctl.Config(alphabet=ALPHABET, closing=('gates', 'play', 'resume'), resume_default=('dflt',), ops_when='always')


PROP = CtlProperty(ID, Oracle, cfg_for)


def factory() -> CtlProperty:
    return PROP


def units_for(tier: str) -> List[Any]:
    kinds = ('S', 'Y1', 'G')
    finals = ('ret', 'raise', 'killcmd', 'unsucc')
    base = list(programs.linear_programs(2, kinds, ('cont', 'wait'), finals))
    base3 = list(programs.linear_programs(3, kinds, ('cont', 'wait'), ('ret',), min_len=3))
    units: List[Any] = [(p, None) for p in base + base3]
    small = list(programs.linear_programs(2, ('S', 'Y1'), ('cont', 'wait'), ('ret', 'raise')))
    units += [(p, None) for p in programs.with_actions(small, ('cs_ok', 'cs_raise', 'kill'))]
    scripts = [(ev, 1, op) for ev in ('running', 'waiting', 'finished', 'excepted', 'killed')
               for op in (('kill', 't1'), ('pause',), ('fail',), ('addl',))]
    for p in list(programs.linear_programs(2, ('S', 'Y1'), ('cont', 'wait'), ('ret',)))[:6]:
        for s in scripts:
            units.append((p, s))
    for p in programs.linear_programs(1, ('S', 'Y1'), (), ('raise', 'killcmd')):
        for ev in ('excepted', 'killed'):
            units.append((p, (ev, 1, ('addl',))))
    # the step commands in their rarer forms: Stop with either flag, the kill command without a message, None as a result
    units += [(p, None) for p in programs.linear_programs(2, ('S', 'Y1'), ('cont', 'wait'), ('stop_t', 'stop_f', 'killcmd0', 'ret_none'))]
    return units


def run_check(tier: str, seed: int, workers: Any) -> Dict[str, Any]:
    part1 = run_main(tier, seed, workers)
    tiny = [((('S', (), 'wait'), ('S', (), 'ret')), None), ((('Y1', (), 'ret'),), None)]
    deep = {'K': 4, 'J': 0} if tier == 'quick' else {'K': 5, 'J': 0}
    part2 = runner.run_explorer(
        factory, (), tiny, deep, seed, workers,
        rule=f'the two smallest programs with <= {deep["K"]} requests', assumptions=[], bounds=deep, describe=describe_unit)
    return runner.merge([part1, part2])


def run_main(tier: str, seed: int, workers: Any) -> Dict[str, Any]:
    budget = {'K': 2, 'J': 1} if tier == 'quick' else {'K': 3, 'J': 1}
    return runner.run_explorer(
        factory, (), units_for(tier), budget, seed, workers,
        rule='every placement of <=K requests from ' + repr(ALPHABET) + ' and <=J early gate completions between any two '
             'loop callbacks of every generated program (incl. late scheduled callbacks, requests from listeners), '
             'followed by a fixed post-mortem barrage of all control calls; non-trivial = at least one request issued '
             'and one transition made',
        assumptions=['single event loop thread; control calls land between two loop callbacks',
                     'lifecycle hooks of the generated programs do not raise'],
        bounds=dict(budget, program_len=3), describe=describe_unit)


replay = PROP.replay
