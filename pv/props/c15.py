# -*- coding: utf-8 -*-
"""C15 - exposing ports copies exactly the selected ports, independently of the source (DESIGN.md 3, C15).

Bounded-exhaustive: fixed source trees whose names collide as strings x every include / exclude rule set over the tree's
paths (no rule an ancestor of another) x target namespace x namespace option overrides x {expose_inputs, expose_outputs,
absorb}; the destination tree is compared with a rule-selection model working on plain path sets, and both sides are
mutated afterwards to check independence.
"""
from __future__ import annotations

import copy
import itertools
import multiprocessing as mp
import os
from typing import Any, Dict, Iterator, List, Optional, Tuple

import plumpy
from plumpy import ports as pports
from plumpy.process_spec import ProcessSpec

from .. import explore
from ..explore import digest

ID = 'C15'
SEP = '.'

# A tree is {name: leaf_attrs | ('ns', ns_attrs, subtree)}; attrs are dicts of constructor keyword arguments.
NS_DEFAULT = {'help': None, 'required': True, 'dynamic': False, 'valid_type': None, 'populate_defaults': True}


class _Either:
    """Stands for a boolean property the statement does not determine: equal to True and to False."""

    def __eq__(self, other: Any) -> bool:
        return isinstance(other, (bool, _Either))

    def __ne__(self, other: Any) -> bool:
        return not self.__eq__(other)

    __hash__ = object.__hash__

    def __repr__(self) -> str:
        return 'True-or-False'

    def __deepcopy__(self, memo: Any) -> '_Either':
        return self


EITHER = _Either()


class _AnyAttrs(dict):
    """The properties of a namespace the statement says nothing about: equal to any set of properties."""

    def __eq__(self, other: Any) -> bool:
        return isinstance(other, dict)

    def __ne__(self, other: Any) -> bool:
        return not self.__eq__(other)

    __hash__ = None  # type: ignore[assignment]

    def __deepcopy__(self, memo: Any) -> '_AnyAttrs':
        return self

    def __repr__(self) -> str:
        return '<any properties>'


ANY_ATTRS = _AnyAttrs()


def leaf(i: int) -> Dict[str, Any]:
    return {'help': f'h{i}', 'required': bool(i % 2), 'valid_type': (int, str, None)[i % 3]}


def ns(i: int, sub: Dict[str, Any], **kw: Any) -> tuple:
    attrs = dict(NS_DEFAULT, help=f'nh{i}', required=bool((i + 1) % 2))
    attrs.update(kw)
    if kw.get('valid_type') is not None and 'dynamic' not in kw:
        attrs['dynamic'] = True  # what setting a valid_type does; (valid_type, dynamic=False) has to be asked for explicitly
    return ('ns', attrs, sub)


TREES: Dict[str, Dict[str, Any]] = {
    'T1': {'a': leaf(1), 'ab': leaf(2),
           'ns': ns(1, {'x': leaf(3), 'xy': leaf(4), 'sub': ns(2, {'z': leaf(5), 'zz': leaf(6)})}),
           'nsx': ns(3, {'x': leaf(7)}, dynamic=True), 'n': ns(4, {'x': leaf(8)}, populate_defaults=False),
           'e': ns(5, {}, dynamic=True)},
    'T2': {'abc': leaf(1), 'ab': ns(1, {'c': leaf(2), 'd': leaf(3)}), 'a': ns(2, {'b': ns(3, {'c': leaf(4)})}),
           'abcd': ns(4, {'e': leaf(5)}, valid_type=int)},
    'T3': {'p': ns(1, {'q': ns(2, {'r': ns(3, {'s': leaf(1)}), 'rs': leaf(2)}), 'qr': leaf(3)}),
           'pq': ns(4, {'r': leaf(4), 'e': ns(5, {})}), 'p_q': leaf(5)},
}
# T4: namespaces that have a valid_type but were made non-dynamic again afterwards (what e.g. AiiDA does with the inputs
# namespace of every process), at the top level and nested
TREES['T4'] = {'a': leaf(1), 'n': ns(1, {'x': leaf(2)}, valid_type=int, dynamic=False), 'd': ns(4, {'x': leaf(5)}, default={'x': 1}),
               'm': ns(2, {'y': leaf(3), 'k': ns(3, {}, valid_type=str, dynamic=False)}, valid_type=int)}
# T5: names that occur again further down (x, ns.x, ns.ns.x): a rule speaks about one path only
TREES['T5'] = {'x': leaf(1), 'y': leaf(2), 'ns': ns(1, {'x': leaf(3), 'y': leaf(4), 'ns': ns(2, {'x': leaf(5), 'y': leaf(6)})})}
TOP_ATTRS: Dict[str, Dict[str, Any]] = {'T4': {'valid_type': int, 'dynamic': False}}
DEST_PRE = {'zz_keep': leaf(9), 'zn_keep': ns(9, {'k': leaf(10)})}
NAMESPACES = (None, 't', 't.u')
OPTION_SETS: Tuple[Dict[str, Any], ...] = (
    {}, {'required': False, 'help': 'override-help'}, {'dynamic': True, 'populate_defaults': False},
    {'valid_type': str}, {'required': False, 'dynamic': True, 'help': 'oh', 'valid_type': int, 'populate_defaults': False},
    {'dynamic': False},
)
# ({'dynamic': False, 'valid_type': T} is left out: the option says non-dynamic, the documented effect of setting a
#  valid_type says dynamic - the statement does not rank them)


def paths(tree: Dict[str, Any], prefix: str = '') -> List[str]:
    out = []
    for name, node in tree.items():
        p = prefix + name
        out.append(p)
        if isinstance(node, tuple):
            out.extend(paths(node[2], p + SEP))
    return out


def is_ancestor(a: str, b: str) -> bool:
    return b.startswith(a + SEP)


def rule_sets(tree: Dict[str, Any], max_size: int) -> Iterator[Tuple[str, ...]]:
    ps = paths(tree)
    for size in range(1, max_size + 1):
        for combo in itertools.combinations(ps, size):
            if any(is_ancestor(a, b) or is_ancestor(b, a) for a, b in itertools.combinations(combo, 2)):
                continue
            yield combo


# ---- reference model: set algebra on paths -----------------------------------------------------------------------------

def covered(path: str, rules: Tuple[str, ...]) -> bool:
    return any(path == r or is_ancestor(r, path) for r in rules)


def select(tree: Dict[str, Any], include: Optional[Tuple[str, ...]], exclude: Optional[Tuple[str, ...]],
           prefix: str = '') -> Dict[str, Any]:
    """The sub-tree of ``tree`` that the rules select."""
    out: Dict[str, Any] = {}
    for name, node in tree.items():
        p = prefix + name
        if exclude is not None:
            if covered(p, exclude):
                continue
            out[name] = node if not isinstance(node, tuple) else ('ns', node[1], select(node[2], None, exclude, p + SEP))
        elif include is not None:
            if covered(p, include):
                out[name] = node  # the whole thing
            elif isinstance(node, tuple) and any(is_ancestor(p, r) for r in include):
                # only a container for what a rule selects further down: its own properties are not laid down
                out[name] = ('ns', ANY_ATTRS, select(node[2], include, None, p + SEP))
        else:
            out[name] = node
    return out


def expected(tree: Dict[str, Any], top_attrs: Dict[str, Any], include: Any, exclude: Any, namespace: Optional[str],
             options: Dict[str, Any]) -> Dict[str, Any]:
    """Expected destination tree."""
    dest: Dict[str, Any] = {k: v for k, v in DEST_PRE.items()}
    selected = select(tree, include, exclude)
    attrs = dict(top_attrs)
    attrs.update(options)
    if options.get('valid_type') is not None and 'dynamic' not in options:
        # the documented effect of setting a valid_type is dynamic=True, the statement says "the source namespace's properties
        # unless overridden": either answer is accepted (EITHER compares equal to both)
        attrs['dynamic'] = EITHER
    if namespace is None:
        dest.update(selected)
        return {'attrs': attrs, 'tree': dest}
    parts = namespace.split(SEP)
    node: Any = ('ns', attrs, selected)
    for i, part in enumerate(reversed(parts)):
        if i == 0:
            node = {part: node}
        else:
            node = {part: ('ns', dict(NS_DEFAULT), node)}
    dest.update(node)
    return {'attrs': None, 'tree': dest}


# ---- building real objects ---------------------------------------------------------------------------------------------

def build(namespace: pports.PortNamespace, tree: Dict[str, Any], port_cls: type) -> None:
    for name, node in tree.items():
        if isinstance(node, tuple):
            sub = pports.PortNamespace(name, **copy.deepcopy(node[1]))  # (a default mapping is the port's own object)
            sub.dynamic = node[1]['dynamic']  # (the constructor's valid_type makes it dynamic; the description decides)
            namespace[name] = sub
            build(sub, node[2], port_cls)
        else:
            namespace[name] = port_cls(name, **node)


def describe(namespace: pports.PortNamespace) -> Dict[str, Any]:
    out: Dict[str, Any] = {}
    for name, port in namespace.items():
        if isinstance(port, pports.PortNamespace):
            out[name] = ('ns', ns_attrs(port), describe(port))
        else:
            out[name] = {'help': port.help, 'required': port.required, 'valid_type': port.valid_type}
            if port.name != name:
                out[name]['name'] = port.name
    return out


def ns_attrs(port: pports.PortNamespace) -> Dict[str, Any]:
    out = {'help': port.help, 'required': port.required, 'dynamic': port.dynamic, 'valid_type': port.valid_type,
           'populate_defaults': port.populate_defaults}
    if port.has_default():
        out['default'] = copy.deepcopy(port.default)
    return out


def normalise(tree: Dict[str, Any]) -> Dict[str, Any]:
    out: Dict[str, Any] = {}
    for name, node in tree.items():
        if isinstance(node, tuple):
            attrs = node[1] if node[1] is ANY_ATTRS else dict(node[1])
            out[name] = ('ns', attrs, normalise(node[2]))
        else:
            out[name] = dict(node)
    return out


def mutate(namespace: pports.PortNamespace, tag: str) -> None:
    """Change every attribute of every port below ``namespace`` and add / remove ports."""
    for name, port in list(namespace.items()):
        port.help = f'{tag}-{name}'
        port.required = not port.required
        port.valid_type = float
        if isinstance(port, pports.PortNamespace):
            port.populate_defaults = not port.populate_defaults
            mutate(port, tag)
            port[f'{tag}_new'] = pports.Port(f'{tag}_new')
        if getattr(port, 'has_default', lambda: False)() and isinstance(port.default, dict):
            port.default[f'{tag}_key'] = tag  # a change made *inside* the default mapping
    namespace.help = f'{tag}-self'


def make_source_class(tree_name: str, kind: str) -> type:
    tree = TREES[tree_name]

    class Source(plumpy.Process):
        @classmethod
        def define(cls, spec: Any) -> None:
            super().define(spec)
            top = spec.inputs if kind == 'inputs' else spec.outputs
            build(top, tree, pports.InputPort if kind == 'inputs' else pports.OutputPort)
            top.help = 'src-top-help'
            top.required = True
            for attr in ('valid_type', 'dynamic'):
                if attr in TOP_ATTRS.get(tree_name, {}):
                    setattr(top, attr, TOP_ATTRS[tree_name][attr])

    Source.__name__ = f'Source_{tree_name}_{kind}'
    return Source


def check_case(case: tuple) -> List[dict]:
    tree_name, mode, include, exclude, namespace, opt_idx, kind = case
    tree = TREES[tree_name]
    options = dict(OPTION_SETS[opt_idx])
    violations: List[dict] = []

    def violate(clause: str, feats: dict, detail: Any = None) -> None:
        violations.append({'clause': clause, 'features': feats, 'detail': detail, 'case': list(case)})

    port_cls = pports.OutputPort if kind == 'outputs' else pports.InputPort
    if kind == 'absorb':
        source = pports.PortNamespace('src', help='src-top-help', required=True)
        for attr in ('valid_type', 'dynamic'):
            if attr in TOP_ATTRS.get(tree_name, {}):
                setattr(source, attr, TOP_ATTRS[tree_name][attr])
        build(source, tree, port_cls)
        destination = pports.PortNamespace('dst')
        build(destination, DEST_PRE, port_cls)
        target = destination.create_port_namespace(namespace) if namespace else destination
        target.absorb(source, exclude=list(exclude) if exclude is not None else None,
                      include=list(include) if include is not None else None, namespace_options=dict(options))
    else:
        src_cls = make_source_class(tree_name, kind)
        spec = ProcessSpec()
        destination = spec.inputs if kind == 'inputs' else spec.outputs
        build(destination, DEST_PRE, port_cls)
        fn = spec.expose_inputs if kind == 'inputs' else spec.expose_outputs
        fn(src_cls, namespace=namespace, exclude=list(exclude) if exclude is not None else None,
           include=list(include) if include is not None else None, namespace_options=dict(options))
        source = src_cls.spec().inputs if kind == 'inputs' else src_cls.spec().outputs
    top_attrs = dict(NS_DEFAULT, help='src-top-help', required=True)
    top_attrs.update(TOP_ATTRS.get(tree_name, {}))
    want = expected(tree, top_attrs, include, exclude, namespace, options)
    want_tree = normalise(want['tree'])
    got_tree = describe(destination)
    rules = include if include is not None else exclude
    feats = {'mode': mode, 'kind': kind, 'tree': tree_name}
    if got_tree != want_tree:
        extra = sorted(set(paths(got_tree)) - set(paths(want_tree)))
        missing = sorted(set(paths(want_tree)) - set(paths(got_tree)))
        what = 'extra-ports' if extra else ('missing-ports' if missing else 'attributes')
        prefix_sibling = any(e.split(SEP)[0] != r.split(SEP)[0] and r.startswith(e.split(SEP)[0]) for e in extra for r in rules or ())
        violate(f'selection:{what}', dict(feats, prefix_sibling=prefix_sibling),
                {'rules': rules, 'namespace': namespace, 'extra': extra, 'missing': missing,
                 'got': repr(got_tree)[:600], 'want': repr(want_tree)[:600]})
    if namespace is None and want['attrs'] is not None:
        attrs = dict(want['attrs'])
        if ns_attrs(destination) != attrs:
            violate('namespace-properties', feats, {'got': ns_attrs(destination), 'want': attrs, 'options': repr(options)})
    # independence, both directions
    before = describe(destination)
    src_before = describe(source)
    mutate(source, 'srcmut')
    if describe(destination) != before:
        violate('independence:source-change-shows-in-destination', feats, None)
    if kind == 'absorb':
        fresh_src = describe(source)
        mutate(destination, 'dstmut')
        if describe(source) != fresh_src:
            violate('independence:destination-change-shows-in-source', feats, None)
    return violations


def check_rejections() -> List[dict]:
    violations: List[dict] = []
    for kind in ('inputs', 'outputs', 'absorb'):
        for what, kwargs in (('include+exclude', {'include': ['a'], 'exclude': ['ab']}),):
            try:
                if kind == 'absorb':
                    src = pports.PortNamespace('s')
                    build(src, TREES['T1'], pports.InputPort)
                    pports.PortNamespace('d').absorb(src, **kwargs)
                else:
                    spec = ProcessSpec()
                    fn = spec.expose_inputs if kind == 'inputs' else spec.expose_outputs
                    fn(make_source_class('T1', kind), **kwargs)
                violations.append({'clause': f'rejection:{what}', 'features': {'kind': kind}, 'detail': 'accepted',
                                   'case': ['reject', kind, what]})
            except Exception:  # noqa: BLE001 - "is rejected": by whatever exception
                pass
    return violations


def cases(tier: str) -> List[tuple]:
    max_rules = 2 if tier == 'quick' else 3
    out: List[tuple] = []
    for tree_name, tree in TREES.items():
        for rules in itertools.chain([None, ()], rule_sets(tree, max_rules)):  # no rules at all, the empty rule set, ...
            for mode in ('include', 'exclude'):
                if rules is None and mode == 'exclude':
                    continue
                include = rules if mode == 'include' else None
                exclude = rules if mode == 'exclude' and rules is not None else None
                for namespace in NAMESPACES:
                    for opt_idx in range(len(OPTION_SETS)):
                        if opt_idx and rules is not None and len(rules) > 1 and tier == 'quick':
                            continue
                        for kind in ('inputs', 'outputs', 'absorb'):
                            out.append((tree_name, mode if rules is not None else 'all', include, exclude, namespace, opt_idx, kind))
    return out


def _work(chunk: List[tuple]) -> Dict[str, Any]:
    out: Dict[str, Any] = {'n': 0, 'violations': [], 'nontrivial': 0}
    for case in chunk:
        out['n'] += 1
        try:
            vs = explore.guarded_case(list(case), check_case, case)
        except Exception as exc:  # noqa: BLE001
            vs = [{'clause': 'raised', 'features': {'exc': type(exc).__name__, 'kind': case[-1]}, 'detail': repr(exc),
                   'case': list(case)}]
        if case[2] is not None or case[3] is not None:
            out['nontrivial'] += 1
        out['violations'].extend(vs[:5])
    return out


def run_check(tier: str, seed: int, workers: Any) -> Dict[str, Any]:
    all_cases = cases(tier)
    size = 300
    chunks = [all_cases[i:i + size] for i in range(0, len(all_cases), size)]
    k = seed % max(1, len(chunks))
    chunks = chunks[k:] + chunks[:k]
    total = {'n': 0, 'violations': check_rejections(), 'nontrivial': 0}
    with mp.get_context('fork').Pool(workers or min(16, os.cpu_count() or 1)) as pool:
        for out in pool.imap_unordered(_work, chunks):
            total['n'] += out['n']
            total['nontrivial'] += out['nontrivial']
            total['violations'].extend(out['violations'])
    best: Dict[Any, Any] = {}
    for v in total['violations']:
        key = (v['clause'], repr(sorted(v['features'].items())))
        size_key = (len(repr(v['case'])), repr(v['case']))
        if key not in best or size_key < best[key][0]:
            best[key] = (size_key, v)
    violations = [v for _, v in sorted(best.values(), key=lambda x: x[0])]
    sample = all_cases[(seed * 7919 + 5) % len(all_cases)]
    coverage = {
        'evaluations': total['n'] + 6, 'distinct_nontrivial': total['nontrivial'],
        'states': len({(c[0], c[2], c[3]) for c in all_cases}), 'transitions': total['n'],
        'traces_validated_against_impl': total['n'],
        'rule': 'source trees T1-T3 (names that are string prefixes of each other, nesting <=4) x every include / exclude '
                f'rule set of <= {2 if tier == "quick" else 3} paths without ancestor pairs x target namespace in '
                f'{NAMESPACES} x {len(OPTION_SETS)} namespace option sets x expose_inputs/expose_outputs/absorb; '
                'destination pre-populated; non-trivial = a rule set is given; states = distinct (tree, rule set)',
        'samples': [{'tree': sample[0], 'include': sample[2], 'exclude': sample[3], 'namespace': sample[4],
                     'options': repr(OPTION_SETS[sample[5]]), 'via': sample[6]}],
        'exhaustive': True,
    }
    return {'violations': violations, 'coverage': coverage, 'errors': [], 'level': 'model_checking',
            'assumptions': ['rules are paths of the source tree, none an ancestor of another, non-empty rule lists',
                            'destination ports present beforehand have names that the source does not use'],
            'bounds': {'max_rules': 2 if tier == 'quick' else 3, 'trees': sorted(TREES)}}


def replay(doc: Dict[str, Any]) -> List[dict]:
    from ..cli import to_tuple
    case = doc['case']
    if case[0] == 'reject':
        return check_rejections()
    c = [to_tuple(x) if isinstance(x, list) else x for x in case]
    return check_case(tuple(c))
