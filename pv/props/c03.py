# -*- coding: utf-8 -*-
"""C03 - a failure in user code ends the process EXCEPTED, never half-transitioned (DESIGN.md 3, C03).

Fault enumeration: for every scenario an un-faulted census run counts how often each fault site (user step functions,
scheduled callbacks, output hooks, every lifecycle / pause / play hook, state enter/exit, init, listener methods) is
reached; then every (site, occurrence, before/after super) is run once with exactly that one fault injected.
"""
from __future__ import annotations

import asyncio
import gc
import multiprocessing as mp
import os
from typing import Any, Callable, Dict, List, Optional, Tuple

import plumpy
from plumpy import process_states
from plumpy.base import state_machine

from .. import explore
from ..vloop import Horizon, VLoop

ID = 'C03'
PS = process_states.ProcessState

LIFECYCLE = ('on_create', 'on_run', 'on_running', 'on_exit_running', 'on_wait', 'on_waiting', 'on_exit_waiting', 'on_finish',
             'on_finished', 'on_except', 'on_excepted', 'on_kill', 'on_killed', 'on_terminated', 'on_close', 'on_entering',
             'on_entered', 'on_exiting')
PAUSE_PLAY = ('on_pausing', 'on_paused', 'on_playing')
OUTPUT = ('on_output_emitting', 'on_output_emitted')
LISTENER = ('on_process_running', 'on_process_waiting', 'on_process_paused', 'on_process_played', 'on_output_emitted',
            'on_process_finished', 'on_process_excepted', 'on_process_killed')


class InjectedFault(Exception):
    pass


class InjectedAssertion(AssertionError):
    pass


class InjectedKeyError(KeyError):
    pass


# the statement says "an exception": besides a plain Exception subclass, two types the library itself raises and catches
# in places (assert statements of the state machine; KeyError around dictionary look-ups)
EXC_KINDS = {'plain': InjectedFault, 'assertion': InjectedAssertion, 'keyerror': InjectedKeyError}
EXC_KIND = 'plain'


class Env:
    def __init__(self, plan: Optional[Tuple[str, int, str]]) -> None:
        self.plan = plan
        self.counts: Dict[Tuple[str, str, Any], int] = {}
        self.injected: Optional[InjectedFault] = None
        self.injected_during: Optional[str] = None
        self.phase = 'construction'
        self.trace: List[str] = []
        self.call_stack: List[str] = []
        self.proc: Any = None
        self.injected_after_termination = False

    def fault(self, site: str, position: str, who: Any = None) -> None:
        key = (site, position, who)
        n = self.counts.get(key, 0) + 1
        self.counts[key] = n
        if self.plan is not None and self.plan == (site, n, position):
            self.injected = EXC_KINDS[EXC_KIND](f'{site}#{n}:{position}')
            self.injected_during = self.phase
            self.injected_after_termination = self.proc is not None and self.proc.has_terminated()
            raise self.injected


ENV: Env = Env(None)


def _hook(name: str, owner: List[type]) -> Callable[..., Any]:
    def hook(self: Any, *args: Any, **kwargs: Any) -> Any:
        ENV.fault(name, 'before')
        result = getattr(super(owner[0], self), name)(*args, **kwargs)
        ENV.fault(name, 'after')
        return result

    hook.__name__ = name
    return hook


def _state_class(base: type, label: str) -> type:
    def enter(self: Any) -> None:
        ENV.fault(f'state_enter:{label}', 'before')
        base.enter(self)
        ENV.fault(f'state_enter:{label}', 'after')

    def exit(self: Any) -> None:  # noqa: A001
        ENV.fault(f'state_exit:{label}', 'before')
        base.exit(self)
        ENV.fault(f'state_exit:{label}', 'after')

    return type(f'F{base.__name__}', (base,), {'enter': enter, 'exit': exit})


class FaultProc(plumpy.Process):
    @classmethod
    def define(cls, spec: Any) -> None:
        super().define(spec)
        spec.output('o', required=False)

    @classmethod
    def get_state_classes(cls) -> Dict[Any, type]:
        classes = super().get_state_classes()
        return {label: _state_class(c, label.value) for label, c in classes.items()}

    def init(self) -> None:
        ENV.fault('init', 'before')
        super().init()
        ENV.fault('init', 'after')

    async def run(self) -> Any:
        ENV.fault('step:run', 'before')
        ENV.trace.append('run')
        self.out('o', 1)
        self.call_soon(self.callback)
        await asyncio.sleep(0)
        ENV.trace.append('run-resumed')
        return process_states.Wait(self.after_wait, 'waiting')

    def callback(self) -> None:
        ENV.fault('callback', 'before')
        ENV.trace.append('callback')

    def after_wait(self, value: Any = None) -> Any:
        ENV.fault('step:after_wait', 'before')
        ENV.trace.append('after_wait')
        return process_states.Continue(self.last)

    async def last(self) -> Any:
        ENV.fault('step:last', 'before')
        ENV.trace.append('last')
        await asyncio.sleep(0)
        ENV.fault('step:last', 'after')
        return 7


for _name in LIFECYCLE + PAUSE_PLAY + OUTPUT:
    setattr(FaultProc, _name, _hook(_name, [FaultProc]))


class FaultChain(plumpy.WorkChain):
    """The same fault sites on a work chain: outline steps and predicates are user code too."""

    @classmethod
    def define(cls, spec: Any) -> None:
        super().define(spec)
        spec.output('o', required=False)
        spec.outline(cls.s0, plumpy.if_(cls.p0)(cls.s1).else_(cls.s2), plumpy.while_(cls.p1)(cls.s3), cls.s4)

    @classmethod
    def get_state_classes(cls) -> Dict[Any, type]:
        classes = super().get_state_classes()
        return {label: _state_class(c, label.value) for label, c in classes.items()}

    def init(self) -> None:
        ENV.fault('init', 'before')
        super().init()
        ENV.fault('init', 'after')

    def s0(self) -> None:
        ENV.fault('step:s0', 'before')
        ENV.trace.append('s0')
        self.ctx.n = 0
        self.out('o', 1)
        self.call_soon(self.callback)

    def callback(self) -> None:
        ENV.fault('callback', 'before')
        ENV.trace.append('callback')

    def p0(self) -> bool:
        ENV.fault('pred:p0', 'before')
        return True

    def s1(self) -> None:
        ENV.fault('step:s1', 'before')
        ENV.trace.append('s1')

    def s2(self) -> None:
        ENV.trace.append('s2')

    def p1(self) -> bool:
        ENV.fault('pred:p1', 'before')
        return self.ctx.n < 1

    def s3(self) -> None:
        ENV.fault('step:s3', 'before')
        ENV.trace.append('s3')
        self.ctx.n += 1

    def s4(self) -> Any:
        ENV.fault('step:s4', 'before')
        ENV.trace.append('s4')
        return None


for _name in LIFECYCLE + PAUSE_PLAY + OUTPUT:
    setattr(FaultChain, _name, _hook(_name, [FaultChain]))

PROGRAMS = {'process': FaultProc, 'workchain': FaultChain}


class FaultListener(plumpy.ProcessListener):
    """Two of these listen to every process; a planned listener fault is raised by both (each at its own n-th call), so
    that whichever the library notifies first, the other one must still get every notification."""

    def __init__(self, tag: str = 'L1') -> None:
        super().__init__()
        self.tag = tag
        self.seen: List[str] = []


def _listener_method(name: str) -> Callable[..., Any]:
    def method(self: Any, process: Any, *args: Any) -> None:
        self.seen.append(name)
        ENV.fault(f'listener:{name}', 'before', self.tag)

    method.__name__ = name
    return method


for _name in LISTENER:
    setattr(FaultListener, _name, _listener_method(_name))


# ---- scenarios: deterministic drivers -----------------------------------------------------------------------------------
# A scenario is a list of (when, op) where ``when`` is the number of ticks after which the op is issued; the run is closed
# by play / resume at quiescence.

N_TICKS = 9  # ticks of the un-faulted plain run (checked by the census)


def _scenarios() -> Dict[str, List[Tuple[int, str]]]:
    out: Dict[str, List[Tuple[int, str]]] = {'plain': []}
    for t in range(0, N_TICKS + 1):
        out[f'pause@{t}'] = [(t, 'pause')]
        out[f'kill@{t}'] = [(t, 'kill')]
        out[f'pause@{t}+kill'] = [(t, 'pause'), (t + 2, 'kill')]
        out[f'pause@{t}+play'] = [(t, 'pause'), (t + 1, 'play')]
    return out


SCENARIOS: Dict[str, List[Tuple[int, str]]] = _scenarios()
QUICK_SCENARIOS = sorted(SCENARIOS)
# thorough: every pair of requests at every pair of tick counts
for _t1 in range(0, N_TICKS + 1):
    for _t2 in range(_t1, N_TICKS + 3):
        for _o1 in ('pause', 'play', 'kill'):
            for _o2 in ('pause', 'play', 'kill'):
                _key = f'{_o1}@{_t1}+{_o2}@{_t2}'
                SCENARIOS.setdefault(_key, [(_t1, _o1), (_t2, _o2)])
                if _t2 <= _t1 + 1 and _key not in QUICK_SCENARIOS:
                    QUICK_SCENARIOS.append(_key)  # two requests in the same or in adjacent loop slots


class Run:
    """One (possibly faulted) execution of a scenario."""

    def __init__(self, scenario: str, plan: Optional[Tuple[str, int, str]], program: str = 'process') -> None:
        self.scenario = scenario
        self.plan = plan
        self.program = program
        self.constructor_exc: Optional[BaseException] = None
        self.call_results: List[Tuple[str, Any, Optional[BaseException]]] = []
        self.proc: Any = None
        self.task: Any = None
        self.loop: Optional[VLoop] = None
        self.contexts: List[dict] = []
        self.listener: Optional[FaultListener] = None
        self.listener2: Optional[FaultListener] = None
        self.capped = False
        self.obs: Dict[str, Any] = {}
        self.probe: Optional[Dict[str, Any]] = None

    def op(self, name: str) -> None:
        proc = self.proc
        ENV.phase = f'call:{name}'
        try:
            ret = getattr(proc, name)(*(('msg',) if name in ('pause', 'kill') else ()))
            self.call_results.append((name, ret, None))
        except Exception as exc:  # noqa: BLE001
            self.call_results.append((name, None, exc))
        ENV.phase = 'run'

    def execute(self) -> None:
        global ENV
        ENV = Env(self.plan)
        loop = VLoop(horizon=1500)
        self.loop = loop
        loop.install()
        try:
            try:
                self.proc = proc = PROGRAMS[self.program](pid='c03', loop=loop)
            except Exception as exc:  # noqa: BLE001
                self.constructor_exc = exc
                return
            ENV.phase = 'run'
            ENV.proc = proc
            self.listener = FaultListener('L1')
            self.listener2 = FaultListener('L2')
            proc.add_process_listener(self.listener)
            proc.add_process_listener(self.listener2)
            self.task = loop.create_task(proc.step_until_terminated())
            script = list(SCENARIOS[self.scenario])
            ticks = 0
            closing = 0
            try:
                while True:
                    while script and script[0][0] <= ticks and not proc.has_terminated():
                        self.op(script.pop(0)[1])
                    if loop.tick():
                        ticks += 1
                        continue
                    if proc.has_terminated() or closing > 20:
                        break
                    closing += 1
                    if ENV.injected is not None and self.plan is not None and self.plan[0] in PAUSE_PLAY and self.probe is None:
                        # "leaves the process live and controllable": it can be paused and played again
                        self.probe_control()
                        continue
                    if script:
                        self.op(script.pop(0)[1])
                    elif proc.paused:
                        self.op('play')
                    elif proc.state == PS.WAITING:
                        ENV.phase = 'call:resume'
                        try:
                            proc.resume('v')
                        except Exception as exc:  # noqa: BLE001
                            self.call_results.append(('resume', None, exc))
                        ENV.phase = 'run'
                    else:
                        break
            except Horizon:
                self.capped = True
            gc.collect(0)
            # GC-timed 'exception was never retrieved' reports are about abandoned futures, not about code that raised into the loop
            self.contexts = [c for c in loop.contexts if 'exception' in c and 'never retrieved' not in c.get('message', '')]
            self.observe()
        finally:
            loop.shutdown()

    def probe_control(self) -> None:
        proc, loop = self.proc, self.loop
        assert loop is not None
        probe: Dict[str, Any] = {'was_paused': proc.paused}
        ENV.phase = 'probe'
        try:
            if proc.paused:
                probe['play'] = proc.play()
                loop.drain()
                probe['paused_after_play'] = proc.paused
            else:
                ret = proc.pause('probe')
                loop.drain()
                probe['pause'] = ret
                probe['paused_after_pause'] = proc.paused or proc.has_terminated()
                probe['play'] = proc.play()
                loop.drain()
                probe['paused_after_play'] = proc.paused
        except Exception as exc:  # noqa: BLE001
            probe['raised'] = exc
        ENV.phase = 'run'
        self.probe = probe

    def observe(self) -> None:
        proc = self.proc
        fut = proc.future()
        self.obs = {
            'state': proc.state, 'exception': proc.exception(), 'paused': proc.paused,
            'future': ('pending' if not fut.done() else 'cancelled' if fut.cancelled() else
                       ('exception', fut.exception()) if fut.exception() is not None else ('result', repr(fut.result()))),
            'task': ('pending' if not self.task.done() else 'cancelled' if self.task.cancelled() else
                     ('exception', self.task.exception()) if self.task.exception() is not None else 'returned'),
            'trace': list(ENV.trace), 'outputs': dict(proc.outputs), 'seen': list(self.listener.seen) if self.listener else [],
            'seen2': list(self.listener2.seen) if self.listener2 else [],
            'contexts': [(c.get('message', ''), type(c.get('exception')).__name__) for c in self.contexts],
        }
        from ._common import is_closed
        self.obs['closed'] = is_closed(proc)


def site_class(site: str, occurrence: int, during: Optional[str]) -> str:
    if during == 'construction':
        return 'construction'
    if site.startswith('listener:'):
        return 'listener'
    if site in PAUSE_PLAY:
        return 'pause-play-hook'
    return 'process-code'


def judge(scenario: str, plan: Tuple[str, int, str], run: Run, twin: Run) -> List[dict]:
    site, occurrence, position = plan
    out: List[dict] = []

    def violate(clause: str, detail: Any = None, **feats: Any) -> None:
        f = {'site': site, 'position': position, 'scenario': scenario}
        if run.program != 'process':
            f['program'] = run.program
        if EXC_KIND != 'plain':
            f['exc_kind'] = EXC_KIND
        f.update(feats)
        out.append({'clause': clause, 'features': f, 'detail': detail,
                    'case': {'scenario': scenario, 'site': site, 'occurrence': occurrence, 'position': position,
                             'program': run.program, 'exc_kind': EXC_KIND}})

    fault = ENV.injected
    if fault is None:
        return out  # the site was not reached this time (the fault changed nothing): nothing to judge
    kind = site_class(site, occurrence, ENV.injected_during)
    if kind == 'construction':
        if run.constructor_exc is not fault:
            violate('construction:not-propagated', repr(run.constructor_exc), kind=kind)
        return out
    if run.constructor_exc is not None:
        violate('constructor-raised-later-fault', repr(run.constructor_exc), kind=kind)
        return out
    obs = run.obs
    if run.capped:
        violate('livelock', None, kind=kind)
        return out
    loop_errors = [c for c in obs['contexts']]
    if kind == 'listener':
        same = all(obs[k] == twin.obs[k] for k in ('state', 'paused', 'trace', 'outputs', 'task', 'closed')) and \
            obs['future'][0] == twin.obs['future'][0] and [r[0] for r in run.call_results] == [r[0] for r in twin.call_results]
        if not same:  # (reporting the listener's failure to the loop's exception handler changes nothing about the process)
            violate('listener:changes-the-process', {'faulted': repr(obs)[:400], 'twin': repr(twin.obs)[:400]}, kind=kind)
        if any(r[2] is not None for r in run.call_results):
            violate('listener:exception-reaches-caller', repr(run.call_results), kind=kind)
        # the failing listener changes nothing about the process, and (C02) every listener still gets its one terminal
        # notification; whether the others also get the intermediate notification during which one of them failed is not
        # laid down
        terminal = ('on_process_finished', 'on_process_excepted', 'on_process_killed')
        for key in ('seen', 'seen2'):
            got = [n for n in obs[key] if n in terminal]
            want = [n for n in twin.obs[key] if n in terminal]
            if got != want:
                violate('listener:other-listener-misses-notifications', {'listener': key, 'got': got, 'want': want}, kind=kind)
                break
        return out
    if kind == 'pause-play-hook':
        # reported to whoever requested the pause / play ...
        reported = False
        def carries(exc: Any) -> bool:
            # "is reported to whoever requested": the exception itself, or one raised from it
            seen = 0
            while exc is not None and seen < 10:
                if exc is fault:
                    return True
                exc, seen = exc.__cause__ or exc.__context__, seen + 1
            return False

        for name, ret, exc in run.call_results:
            if carries(exc):
                reported = True
            if isinstance(ret, asyncio.Future) and ret.done() and not ret.cancelled() and carries(ret.exception()):
                reported = True
        if not reported:
            violate('pause-play:not-reported-to-requester', repr(run.call_results), kind=kind)
        if loop_errors:
            violate('pause-play:escapes-into-loop', loop_errors, kind=kind)
        probe = run.probe
        if probe is not None:
            bad = 'raised' in probe or probe.get('paused_after_play') or probe.get('paused_after_pause') is False
            if bad:
                violate('pause-play:not-controllable-afterwards', {k: repr(v) for k, v in probe.items()}, kind=kind)
        # ... and the process stays live and controllable: it was played/resumed to completion by the closing sequence
        if obs['state'] == PS.EXCEPTED and obs['exception'] is fault:
            violate('pause-play:process-excepted', None, kind=kind)
        elif obs['state'] not in (PS.FINISHED, PS.KILLED):
            violate('pause-play:not-controllable', {'state': str(obs['state']), 'paused': obs['paused'], 'task': repr(obs['task'])},
                    kind=kind, end=str(obs['state']))
        elif obs['task'] != 'returned':
            violate('pause-play:stepping-did-not-return', repr(obs['task']), kind=kind)
        elif obs['state'] == twin.obs['state'] == PS.FINISHED and (obs['trace'] != twin.obs['trace'] or obs['outputs'] != twin.obs['outputs']):
            # the failed pause / play must not change what the program executes (no step lost or run twice)
            violate('pause-play:program-disturbed', {'faulted': obs['trace'], 'twin': twin.obs['trace']}, kind=kind)
        return out
    if site == 'callback' and ENV.injected_after_termination:
        # a late callback: the process had already terminated, nothing may change any more (this is C01's business)
        if obs['state'] != twin.obs['state'] or obs['future'][0] != twin.obs['future'][0] or loop_errors:
            violate('late-callback-changes-terminated-process', {'faulted': str(obs['state']), 'twin': str(twin.obs['state'])}, kind=kind)
        return out
    # any other user code: EXCEPTED with exactly that exception, closed, future raising it, stepping returned, loop clean
    if obs['state'] != PS.EXCEPTED:
        violate('not-excepted', {'state': str(obs['state']), 'task': repr(obs['task'])}, kind=kind, end=str(obs['state']))
    elif obs['exception'] is not fault:
        violate('excepted-with-other-exception', repr(obs['exception']), kind=kind)
    if obs['future'] == 'pending' or obs['future'][0] != 'exception' or obs['future'][1] is not fault:
        violate('future-does-not-raise-it', repr(obs['future'])[:200], kind=kind)
    if obs['closed'] is not True:
        violate('not-closed', None, kind=kind)
    if obs['task'] != 'returned':
        violate('stepping-did-not-return-normally', repr(obs['task'])[:200], kind=kind)
    if loop_errors:
        violate('escapes-into-loop', loop_errors, kind=kind)
    return out


def census(scenario: str, program: str = 'process') -> Tuple[Run, Dict[Tuple[str, str, Any], int]]:
    twin = Run(scenario, None, program)
    twin.execute()
    return twin, dict(ENV.counts)


def check_scenario(job: Any) -> Dict[str, Any]:
    scenario, program = job if isinstance(job, tuple) else (job, 'process')
    res: Dict[str, Any] = {'n': 0, 'violations': [], 'reached': 0, 'sites': set()}
    twin, counts = census(scenario, program)
    if twin.obs.get('state') not in (PS.FINISHED, PS.KILLED) or twin.obs.get('contexts'):
        res['violations'].append({'clause': 'census-run-unclean', 'features': {'scenario': scenario},
                                  'detail': repr(twin.obs)[:500], 'case': {'scenario': scenario}})
        return res
    # a fault can make later sites reachable (e.g. on_except); one extra census with a step failure finds those
    extra = Run(scenario, ('step:last' if program == 'process' else 'step:s4', 1, 'before'), program)
    extra.execute()
    for key, n in ENV.counts.items():
        counts[key] = max(counts.get(key, 0), n)
    per_site: Dict[Tuple[str, str], int] = {}
    for (site, position, _who), n in counts.items():
        per_site[(site, position)] = max(per_site.get((site, position), 0), n)
    global EXC_KIND
    for (site, position), n in sorted(per_site.items()):
        for occurrence in range(1, n + 1):
            for exc_kind in EXC_KINDS:
                EXC_KIND = exc_kind
                try:
                    plan = (site, occurrence, position)
                    case = {'scenario': scenario, 'site': site, 'occurrence': occurrence, 'position': position,
                            'program': program, 'exc_kind': exc_kind}
                    run = Run(scenario, plan, program)
                    try:
                        with explore.watchdog(2 * explore.WATCHDOG_S):
                            run.execute()
                    except explore.Hang as hang:
                        res['violations'].append({'clause': 'hang', 'features': {'site': site, 'position': position, 'scenario': scenario},
                                                  'detail': str(hang), 'case': case})
                        continue
                    res['n'] += 1
                    if ENV.injected is not None:
                        res['reached'] += 1
                        res['sites'].add(site)
                    res['violations'].extend(judge(scenario, plan, run, twin))
                finally:
                    EXC_KIND = 'plain'
    return res


def run_check(tier: str, seed: int, workers: Any) -> Dict[str, Any]:
    names = QUICK_SCENARIOS if tier == 'quick' else sorted(SCENARIOS)
    k = seed % len(names)
    names = names[k:] + names[:k]
    total: Dict[str, Any] = {'n': 0, 'violations': [], 'reached': 0, 'sites': set()}
    with mp.get_context('fork').Pool(min(len(names), workers or os.cpu_count() or 1)) as pool:
        jobs = [(n, prog) for n in names for prog in PROGRAMS]
        for res in pool.imap_unordered(check_scenario, jobs, chunksize=4):
            total['n'] += res['n']
            total['reached'] += res['reached']
            total['sites'] |= res['sites']
            total['violations'].extend(res['violations'])
    best: Dict[Any, Any] = {}
    for v in total['violations']:
        key = (v['clause'], repr(sorted(v['features'].items())))
        if key not in best:
            best[key] = v
    violations = sorted(best.values(), key=lambda v: (v['clause'], repr(v['case'])))
    coverage = {
        'evaluations': total['n'], 'distinct_nontrivial': total['reached'], 'states': len(total['sites']),
        'transitions': total['n'], 'traces_validated_against_impl': total['n'], 'fault_sites': sorted(total['sites']),
        'rule': f'{len(names)} scenarios (plain run; pause / kill / pause+kill / pause+play with the first request after every tick count 0..{N_TICKS}) x every fault site reached in the un-faulted census run (step functions, scheduled '
                'callback, output hooks, every on_* lifecycle hook, on_entering/on_entered/on_exiting, pause/play hooks, '
                'state enter/exit of every state, init, every ProcessListener method) x every occurrence index x '
                '{before, after} the super call x exception type {Exception subclass, AssertionError subclass, KeyError subclass}, '
                'one fault per run; non-trivial = the planned fault was actually raised',
        'samples': [{'scenario': names[0], 'script': SCENARIOS[names[0]], 'site': 'on_running', 'occurrence': 1, 'position': 'after'}],
        'exhaustive': True,
    }
    return {'violations': violations, 'coverage': coverage, 'errors': [], 'level': 'model_checking',
            'assumptions': ['one injected fault per run', 'scenario control requests are issued at fixed tick counts'],
            'bounds': {'scenarios': len(names)}}


def replay(doc: Dict[str, Any]) -> List[dict]:
    case = doc['case']
    if 'site' not in case:
        return check_scenario((case['scenario'], case.get('program', 'process')))['violations']
    global EXC_KIND
    program = case.get('program', 'process')
    twin, _ = census(case['scenario'], program)
    plan = (case['site'], case['occurrence'], case['position'])
    EXC_KIND = case.get('exc_kind', 'plain')
    try:
        run = Run(case['scenario'], plan, program)
        run.execute()
        return judge(case['scenario'], plan, run, twin)
    finally:
        EXC_KIND = 'plain'
