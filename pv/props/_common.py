# -*- coding: utf-8 -*-
"""Boilerplate shared by the properties that use the control harness."""
from __future__ import annotations

from typing import Any, Callable, Dict, List, Optional

from .. import ctl, programs, runner
from ..explore import Chooser


class CtlProperty:
    """Bundles oracle + config + units for one property; module-level ``factory`` functions return ``.factory()``."""

    def __init__(self, pid: str, oracle_cls: Any, cfg_for: Callable[[Any], ctl.Config], base: Optional[type] = None,
                 cls_for: Any = None, world_cls: Any = None) -> None:
        self.pid = pid
        self.oracle_cls = oracle_cls
        self.cfg_for = cfg_for
        self.base = base
        self.cls_for = cls_for
        self.world_cls = world_cls

    def make_run(self, unit: Any) -> Callable[[Chooser], Any]:
        import plumpy
        return ctl.make_runner(self.cfg_for, self.oracle_cls, self.base or plumpy.Process, cls_for=self.cls_for,
                               world_cls=self.world_cls)(unit)

    def with_slot_bound(self, bound: int, alphabet: Any = None) -> 'CtlProperty':
        """The same property for the closure search: at most ``bound`` environment events between two loop callbacks
        (the number of events in total is unlimited there), optionally over a reduced alphabet."""
        inner = self.cfg_for

        def cfg_for(unit: Any) -> ctl.Config:
            cfg = inner(unit)
            cfg.slot_bound = bound
            if alphabet is not None:
                cfg.alphabet = tuple(alphabet)
            return cfg

        return CtlProperty(self.pid, self.oracle_cls, cfg_for, self.base, self.cls_for, self.world_cls)

    def as_burst(self, alphabet: Any = None) -> 'CtlProperty':
        """The same property with requests placed only at quiescent points and right behind one another there."""
        inner = self.cfg_for

        def cfg_for(unit: Any) -> ctl.Config:
            cfg = inner(unit)
            cfg.burst = True
            cfg.early_gates = False
            cfg.cost_of = None  # every request counts against the one budget K
            if alphabet is not None:
                cfg.alphabet = tuple(alphabet)
            return cfg

        return CtlProperty(self.pid, self.oracle_cls, cfg_for, self.base, self.cls_for, self.world_cls)

    def replay(self, doc: Dict[str, Any]) -> List[Dict[str, Any]]:
        from ..cli import to_tuple
        unit = to_tuple(doc['unit'])
        run = self.make_run(unit)
        res = run(Chooser(tuple(doc['choices'])))
        return res.violations


def process_comms_text_key() -> str:
    """The key under which a control message carries its text (exported by the library)."""
    from plumpy import process_comms
    return getattr(process_comms, 'MESSAGE_TEXT_KEY', 'message')


def is_closed(proc: Any) -> bool:
    """A closed process refuses further use with ClosedError: it cannot be stepped any more (and, in the implementation as
    it stands, takes no more cleanups).  Either refusal shows that it is closed - the statements do not say which method."""
    import plumpy
    for attempt in (lambda: proc.add_cleanup(lambda: None), lambda: proc.step()):
        try:
            result = attempt()
        except plumpy.ClosedError:
            return True
        except Exception:  # noqa: BLE001 - e.g. the assertion that a terminated process cannot be stepped
            continue
        if hasattr(result, 'send'):
            # the coroutine of a step that was not refused at call time: it may be refused when it starts to run
            try:
                result.send(None)
            except plumpy.ClosedError:
                return True
            except BaseException:  # noqa: BLE001 - StopIteration, the assertion that a terminated process cannot be stepped
                pass
            finally:
                result.close()
    return False


def is_wc_unit(unit: Any) -> bool:
    """Units of the work-chain family are ((items, how, reassign[, shape]), script); program units are (program, script)
    with program a tuple of (kind, actions, terminator) steps."""
    try:
        spec = unit[0]
        return len(spec) >= 3 and spec[1] in ('return', 'call', 'both') and isinstance(spec[2], bool)
    except (TypeError, IndexError):
        return False


def ops_signature(w: ctl.World) -> List[str]:
    return [f"{r['origin'].split(':')[0]}:{r['op']}" for r in w.calls if r['origin'] not in ('probe', 'closing', 'post')]


def features(w: ctl.World, rec: Any = None, **extra: Any) -> Dict[str, Any]:
    f: Dict[str, Any] = {'ops': ops_signature(w)}
    if rec is not None:
        f['origin'] = rec['origin'].split(':')[0]
        f['at_state'] = str(rec['state'])
        f['at_paused'] = rec['paused']
    for k, v in extra.items():
        f[k] = type(v).__name__ if isinstance(v, BaseException) else v
    return f


def enter_trace(w: ctl.World) -> List[tuple]:
    return [(t[0], t[1], t[2]) for t in w.trace if t[3] == 'enter']


def describe_unit(u: Any) -> Any:
    return {'program': programs.describe(u[0]), 'listener': u[1]}


def default_sample(w: ctl.World) -> Dict[str, Any]:
    return {'program': programs.describe(w.program), 'listener': w.script,
            'choices': [repr(x) for x in w.chooser.labels], 'end': str(w.proc.state)}
