# -*- coding: utf-8 -*-
"""Boilerplate shared by the properties that use the control harness."""
from __future__ import annotations

from typing import Any, Callable, Dict, List, Optional

from .. import ctl, programs, runner
from ..explore import Chooser


class CtlProperty:
    """Bundles oracle + config + units for one property; module-level ``factory`` functions return ``.factory()``."""

    def __init__(self, pid: str, oracle_cls: Any, cfg_for: Callable[[Any], ctl.Config], base: Optional[type] = None,
                 cls_for: Any = None, world_cls: Any = None) -> None:
        self.pid = pid
        self.oracle_cls = oracle_cls
        self.cfg_for = cfg_for
        self.base = base
        self.cls_for = cls_for
        self.world_cls = world_cls

    def make_run(self, unit: Any) -> Callable[[Chooser], Any]:
        import plumpy
        return ctl.make_runner(self.cfg_for, self.oracle_cls, self.base or plumpy.Process, cls_for=self.cls_for,
                               world_cls=self.world_cls)(unit)

    def with_slot_bound(self, bound: int, alphabet: Any = None) -> 'CtlProperty':
        """The same property for the closure search: at most ``bound`` environment events between two loop callbacks
        (the number of events in total is unlimited there), optionally over a reduced alphabet."""
        inner = self.cfg_for

        def cfg_for(unit: Any) -> ctl.Config:
            cfg = inner(unit)
            cfg.slot_bound = bound
            if alphabet is not None:
                cfg.alphabet = tuple(alphabet)
            return cfg

        return CtlProperty(self.pid, self.oracle_cls, cfg_for, self.base, self.cls_for, self.world_cls)

    def as_burst(self, alphabet: Any = None) -> 'CtlProperty':
        """The same property with requests placed only at quiescent points and right behind one another there."""
        inner = self.cfg_for

        def cfg_for(unit: Any) -> ctl.Config:
            cfg = inner(unit)
            cfg.burst = True
            cfg.early_gates = False
            cfg.cost_of = None  # every request counts against the one budget K
            if alphabet is not None:
                cfg.alphabet = tuple(alphabet)
            return cfg

        return CtlProperty(self.pid, self.oracle_cls, cfg_for, self.base, self.cls_for, self.world_cls)

    def replay(self, doc: Dict[str, Any]) -> List[Dict[str, Any]]:
        from ..cli import to_tuple
        unit = to_tuple(doc['unit'])
        run = self.make_run(unit)
        res = run(Chooser(tuple(doc['choices'])))
        return res.violations


def process_comms_text_key() -> str:
    """The key under which a control message carries its text (exported by the library)."""
    from plumpy import process_comms
    return getattr(process_comms, 'MESSAGE_TEXT_KEY', 'message')


def is_closed(proc: Any) -> bool:
    """A closed process refuses further use with ClosedError: it cannot be stepped any more (and, in the implementation as
    it stands, takes no more cleanups).  Either refusal shows that it is closed - the statements do not say which method."""
    import plumpy
    for attempt in (lambda: proc.add_cleanup(lambda: None), lambda: proc.step()):
        try:
            result = attempt()
        except plumpy.ClosedError:
            return True
        except Exception:  # noqa: BLE001 - e.g. the assertion that a terminated process cannot be stepped
            continue
        if hasattr(result, 'send'):
            # the coroutine of a step that was not refused at call time: it may be refused when it starts to run
            try:
                result.send(None)
            except plumpy.ClosedError:
                return True
            except BaseException:  # noqa: BLE001 - StopIteration, the assertion that a terminated process cannot be stepped
                pass
            finally:
                result.close()
    return False


def is_wc_unit(unit: Any) -> bool:
    """Units of the work-chain family are ((items, how, reassign[, shape]), script); program units are (program, script)
    with program a tuple of (kind, actions, terminator) steps."""
    try:
        spec = unit[0]
        return len(spec) >= 3 and spec[1] in ('return', 'call', 'both') and isinstance(spec[2], bool)
    except (TypeError, IndexError):
        return False


def ops_signature(w: ctl.World) -> List[str]:
    return [f"{r['origin'].split(':')[0]}:{r['op']}" for r in w.calls if r['origin'] not in ('probe', 'closing', 'post')]


def features(w: ctl.World, rec: Any = None, **extra: Any) -> Dict[str, Any]:
    f: Dict[str, Any] = {'ops': ops_signature(w)}
    if rec is not None:
        f['origin'] = rec['origin'].split(':')[0]
        f['at_state'] = str(rec['state'])
        f['at_paused'] = rec['paused']
    for k, v in extra.items():
        f[k] = type(v).__name__ if isinstance(v, BaseException) else v
    return f


def enter_trace(w: ctl.World) -> List[tuple]:
    return [(t[0], t[1], t[2]) for t in w.trace if t[3] == 'enter']


def describe_unit(u: Any) -> Any:
    return {'program': programs.describe(u[0]), 'listener': u[1]}


def default_sample(w: ctl.World) -> Dict[str, Any]:
    return {'program': programs.describe(w.program), 'listener': w.script,
            'choices': [repr(x) for x in w.chooser.labels], 'end': str(w.proc.state)}


def sequel_part(module: str, factory_name: str, unit: Any, k_first: int, k_second: int, workers: Any,
                only: Any = None, without_second: tuple = ()) -> Dict[str, Any]:
    """What a process does does not depend on the processes that ran before it in the same interpreter: every burst history
    of <= k_first requests of a first process followed, in the same fresh interpreter, by every burst history of <= k_second
    requests of a second process of the class, which must be observed exactly as after no earlier process (pv/sequel.py).
    ``getattr(module, factory_name)()`` must be a burst-mode CtlProperty."""
    import importlib
    import os
    from concurrent.futures import ThreadPoolExecutor
    from .. import sequel
    from ..explore import dfs
    prop = getattr(importlib.import_module(module), factory_name)()

    def histories(k: int, without: tuple = ()) -> List[List[int]]:
        found: List[List[int]] = []

        def keep(ch: Any, res: Any) -> None:
            if not any(lab[0] in without for c, lab in zip(ch.choices, ch.labels) if c):
                found.append(list(ch.choices))

        dfs(prop.make_run(unit), {'K': k}, on_result=keep)
        return sorted(found, key=lambda c: (sum(1 for x in c if x), c))

    out: Dict[str, Any] = {'n': 0, 'violations': []}
    if only is not None:
        firsts, seconds = [only[0]], [only[1]]
    else:
        firsts, seconds = histories(k_first), histories(k_second, without_second)
    then = [[unit, h2] for h2 in seconds]
    ref = sequel.ask(module, factory_name, None, then)

    def one(h1: List[int]) -> Any:
        return h1, sequel.ask(module, factory_name, [unit, h1], then)

    with ThreadPoolExecutor(max_workers=workers or min(16, os.cpu_count() or 1)) as pool:
        for h1, got in pool.map(one, firsts):
            for h2, a, b in zip(seconds, ref, got):
                out['n'] += 1
                if a != b:
                    out['violations'].append({
                        'clause': 'depends-on-an-earlier-process', 'features': {'part': 'sequel'},
                        'detail': {'after_nothing': a, 'after_the_first_process': b},
                        'case': {'part': 'sequel', 'first': h1, 'second': h2}})
    out['violations'] = sorted(out['violations'], key=lambda v: (len(v['case']['first']) + len(v['case']['second']),
                                                                  v['case']['first'], v['case']['second']))[:3]
    return out


def add_sequel(out: Dict[str, Any], part: Dict[str, Any], text: str) -> None:
    out['violations'].extend(part['violations'])
    for key in ('evaluations', 'traces_validated_against_impl', 'transitions'):
        out['coverage'][key] += part['n']
    out['coverage']['sequel_pairs'] = part['n']
    out['coverage']['rule'] += ' || ' + text
