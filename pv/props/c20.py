# -*- coding: utf-8 -*-
"""C20 - future adapters deliver result, error or cancellation exactly once (DESIGN.md 3, C20).

A  unwrap_kiwi_future: chains of kiwi futures of depth <= D, every outcome at every level, every completion order.
B  plum_to_kiwi_future composed with unwrap_kiwi_future on loop futures: same chains, every order and every placement of
   the completions between loop callbacks (explored with the prefix-replay DFS).
C  futures.create_task: coroutine awaiting 0-2 gates then returning / raising, every placement.
D  Process._schedule_rpc: callbacks returning values or (nested) loop futures, every order and placement.
E  CancellableAction: every sequence of <= 3 operations over {run, cancel} x action {returns, raises}.
"""
from __future__ import annotations

import asyncio
import itertools
import logging
from typing import Any, Dict, List, Optional, Tuple

import kiwipy
import plumpy
from plumpy import communications, futures

from .. import explore, runner
from ..explore import Chooser, ExecResult
from ..vloop import VLoop

ID = 'C20'
FINALS = ('value', 'exc', 'cancel')


class ChainError(Exception):
    pass


def chains(max_depth: int) -> List[Tuple[str, ...]]:
    """Outcome per level: all but the last are 'next' (resolve to the next level's future) or end early."""
    out: List[Tuple[str, ...]] = []
    for depth in range(1, max_depth + 1):
        for final in FINALS:
            out.append(('next',) * (depth - 1) + (final,))
    return out


def expected(chain: Tuple[str, ...]) -> Tuple[str, int]:
    return chain[-1], len(chain) - 1


class CallbackErrors(logging.Handler):
    """Exceptions raised inside done-callbacks of concurrent futures are only logged; collect them."""

    def __init__(self) -> None:
        super().__init__()
        self.records: List[str] = []

    def emit(self, record: logging.LogRecord) -> None:
        self.records.append(record.getMessage() + (f' {record.exc_info[1]!r}' if record.exc_info else ''))


def status_of(fut: Any) -> Tuple[Any, ...]:
    if not fut.done():
        return ('pending',)
    if fut.cancelled():
        return ('cancelled',)
    exc = fut.exception()
    if exc is not None:
        return ('exc', exc)
    return ('value', fut.result())


def complete(futs: List[Any], chain: Tuple[str, ...], level: int, errors: Dict[int, BaseException]) -> None:
    outcome = chain[level]
    if outcome == 'next':
        futs[level].set_result(futs[level + 1])
    elif outcome == 'value':
        futs[level].set_result(f'v{level}')
    elif outcome == 'exc':
        errors[level] = ChainError(f'level-{level}')
        futs[level].set_exception(errors[level])
    else:
        futs[level].cancel()


def judge(chain: Tuple[str, ...], got: Tuple[Any, ...], errors: Dict[int, BaseException], carried_ok: bool = False) -> Optional[str]:
    outcome, level = expected(chain)
    if outcome == 'value':
        return None if got == ('value', f'v{level}') else f'want value v{level}, got {got!r}'
    if outcome == 'exc':
        return None if got[0] == 'exc' and got[1] is errors.get(level) else f'want the exception of level {level}, got {got!r}'
    if got == ('cancelled',):
        return None
    if carried_ok and got[0] == 'exc' and isinstance(got[1], (asyncio.CancelledError, kiwipy.CancelledError)):
        # for the mirror and the unwrapping the statement names the cancellation as an outcome of its own; for a scheduled
        # coroutine ("result or exception") and the internal rpc helper a cancellation carried as the exception is as good
        return None
    return f'want cancelled, got {got!r}'


# ---- A ------------------------------------------------------------------------------------------------------------------

def check_unwrap(max_depth: int) -> Dict[str, Any]:
    res: Dict[str, Any] = {'n': 0, 'violations': [], 'nontrivial': 0}
    handler = CallbackErrors()
    logger = logging.getLogger('concurrent.futures')
    logger.addHandler(handler)
    try:
        for chain in chains(max_depth):
            for order in itertools.permutations(range(len(chain))):
                for attach_at in range(len(chain) + 1):  # the adapter is attached after ``attach_at`` completions
                    res['n'] += 1
                    if list(order) != sorted(order):
                        res['nontrivial'] += 1
                    handler.records.clear()
                    futs = [kiwipy.Future() for _ in chain]
                    errors: Dict[int, BaseException] = {}
                    adapter = None
                    for k, level in enumerate(order):
                        if k == attach_at:
                            adapter = futures.unwrap_kiwi_future(futs[0])
                        complete(futs, chain, level, errors)
                    if adapter is None:
                        adapter = futures.unwrap_kiwi_future(futs[0])
                    why = judge(chain, status_of(adapter), errors)
                    case = {'part': 'A', 'chain': chain, 'order': order, 'attach_at': attach_at}
                    if why:
                        res['violations'].append({'clause': 'unwrap:wrong-outcome', 'features': {'final': chain[-1], 'depth': len(chain)},
                                                  'detail': why, 'case': case})
                    if handler.records:
                        res['violations'].append({'clause': 'unwrap:callback-raised', 'features': {'final': chain[-1], 'depth': len(chain)},
                                                  'detail': handler.records[:2], 'case': case})
    finally:
        logger.removeHandler(handler)
    return res


# ---- B and D: on the loop, explored --------------------------------------------------------------------------------------

class LoopProp:
    """unit = ('mirror', chain) | ('rpc', chain) | ('task', n_gates, final)"""

    def make_run(self, unit: Any) -> Any:
        kind = unit[0]

        def run(chooser: Chooser) -> ExecResult:
            res = ExecResult()
            loop = VLoop(horizon=500)
            loop.install()
            handler = CallbackErrors()
            logger = logging.getLogger('concurrent.futures')
            logger.addHandler(handler)
            errors: Dict[int, BaseException] = {}
            calls = [0]
            try:
                if kind in ('mirror', 'rpc'):
                    chain = unit[1]
                    futs = [loop.create_future() for _ in chain]
                    if kind == 'mirror':
                        adapter = futures.unwrap_kiwi_future(communications.plum_to_kiwi_future(futs[0]))
                    else:
                        proc = plumpy.Process(pid='c20', loop=loop)

                        def callback() -> Any:
                            calls[0] += 1
                            return futs[0]

                        adapter = proc._schedule_rpc(callback)
                    pending = list(range(len(chain)))
                else:
                    n_gates, final = unit[1], unit[2]
                    chain = ('cancel' if final == 'gate-cancel' else final,)
                    futs = [loop.create_future() for _ in range(n_gates)]

                    async def coro() -> Any:
                        calls[0] += 1
                        for f in futs:
                            await f
                        if final == 'exc':
                            errors[0] = ChainError('level-0')
                            raise errors[0]
                        if final == 'cancel':
                            raise asyncio.CancelledError()  # the coroutine ends in a cancellation
                        return 'v0'

                    adapter = futures.create_task(coro, loop)
                    pending = list(range(n_gates))
                done_order: List[int] = []
                while True:
                    opts: List[Tuple[Any, str]] = []
                    if loop.has_ready():
                        opts.append((('tick',), ''))
                    opts += [(('complete', lv), '') for lv in pending]
                    if not opts:
                        break
                    c = chooser.choose(opts)
                    res.transitions += 1
                    label = opts[c][0]
                    if label == ('tick',):
                        loop.tick()
                    else:
                        lv = label[1]
                        pending.remove(lv)
                        done_order.append(lv)
                        if kind == 'task':
                            if final == 'gate-cancel' and lv == n_gates - 1:
                                futs[lv].cancel()  # what the coroutine awaits is cancelled: so is the coroutine
                            else:
                                futs[lv].set_result(None)
                        else:
                            complete(futs, chain, lv, errors)
                    res.states.add((tuple(done_order), loop.ready_count(), adapter.done()))
                got = status_of(adapter)
                why = judge(chain, got, errors, carried_ok=kind in ('task', 'rpc'))
                feats = {'adapter': kind, 'final': chain[-1], 'depth': len(chain)}
                if why:
                    res.violations.append({'clause': f'{kind}:wrong-outcome', 'features': feats, 'detail': why})
                if handler.records:
                    res.violations.append({'clause': f'{kind}:callback-raised', 'features': feats, 'detail': handler.records[:2]})
                bad = [c for c in loop.contexts if isinstance(c.get('exception'), (asyncio.InvalidStateError,))]
                if bad:
                    res.violations.append({'clause': f'{kind}:completed-twice', 'features': feats, 'detail': repr(bad[:1])})
                if kind in ('rpc', 'task') and calls[0] != 1:
                    res.violations.append({'clause': f'{kind}:call-count', 'features': feats, 'detail': calls[0]})
                res.nontrivial = done_order != sorted(done_order)
                res.outcome = (got[0], tuple(done_order))
                res.sample = {'unit': repr(unit), 'choices': [repr(x) for x in chooser.labels], 'adapter_ends': got[0]}
            finally:
                logger.removeHandler(handler)
                loop.shutdown()
            return res

        return run


def factory() -> LoopProp:
    return LoopProp()


def loop_units(tier: str) -> List[Any]:
    depth = 3 if tier == 'quick' else 4
    units: List[Any] = [('mirror', c) for c in chains(depth)]
    if hasattr(plumpy.Process, '_schedule_rpc'):  # (an internal helper that combines the adapters; exercised while it exists)
        units += [('rpc', c) for c in chains(depth)]
    units += [('task', n, final) for n in range(0, 3) for final in ('value', 'exc', 'cancel')]
    units += [('task', n, 'gate-cancel') for n in range(1, 3)]
    return units


# ---- E ------------------------------------------------------------------------------------------------------------------

def check_actions() -> Dict[str, Any]:
    res: Dict[str, Any] = {'n': 0, 'violations': [], 'nontrivial': 0}
    loop = VLoop()
    loop.install()
    try:
        for raises in (False, True):
            for seq in [s for n in range(1, 4) for s in itertools.product(('run', 'cancel'), repeat=n)]:
                res['n'] += 1
                calls = [0]
                boom = ChainError('action')

                def action(*args: Any) -> Any:
                    calls[0] += 1
                    if raises:
                        raise boom
                    return ('done', args)

                act = futures.CancellableAction(action, cookie='c')
                ran = cancelled = False
                case = {'part': 'E', 'sequence': seq, 'raises': raises}
                for i, op in enumerate(seq):
                    feats = {'op': op, 'after': list(seq[:i])[-1:] or ['-'], 'raises': raises}
                    if op == 'cancel':
                        got = act.cancel()
                        if not ran and not cancelled:
                            cancelled = True
                        continue
                    before = calls[0]
                    try:
                        act.run(1)
                        refused = False
                    except BaseException as exc:  # noqa: BLE001 - however a run is refused
                        refused = True
                        carried = act.done() and not act.cancelled() and act.exception() is boom
                        if exc is boom and not carried:
                            # (raising it on top of reporting it through the action is not ruled out; losing it is)
                            res['violations'].append({'clause': 'action:exception-escapes-run', 'features': feats,
                                                      'detail': repr(exc), 'case': case})
                    if ran or cancelled:
                        # "refuses to run again or after cancellation": by raising or by doing nothing - what counts is
                        # that the function is not called again
                        if calls[0] != before:
                            res['violations'].append({'clause': 'action:function-called-again', 'features': feats,
                                                      'detail': calls[0], 'case': case})
                    else:
                        ran = True
                        res['nontrivial'] += 1
                        want = ('exc', boom) if raises else ('value', ('done', (1,)))
                        got_status = status_of(act)
                        ok = got_status[0] == want[0] and (got_status[1] is boom if raises else got_status[1] == want[1])
                        if (refused and not (raises and ok)) or calls[0] != 1 or not ok:
                            res['violations'].append({'clause': 'action:first-run', 'features': feats,
                                                      'detail': {'refused': refused, 'calls': calls[0], 'status': repr(got_status)},
                                                      'case': case})
                if calls[0] > 1:
                    res['violations'].append({'clause': 'action:called-more-than-once', 'features': {'raises': raises},
                                              'detail': calls[0], 'case': case})
                if cancelled and not ran and not act.cancelled():
                    res['violations'].append({'clause': 'action:cancel-not-recorded', 'features': {'raises': raises},
                                              'detail': repr(act), 'case': case})
    finally:
        loop.shutdown()
    return res


def check_idle_loop() -> Dict[str, Any]:
    """Part F: ``create_task`` asked for by a communicator thread while the loop sits idle in its selector.  An idle loop
    only carries on when it is woken through its self-pipe, which is what the thread-safe scheduling calls do
    (``_write_to_self``); the loop here records that wake-up and is only driven on if it came - a coroutine scheduled
    without it would sit in the ready queue of a sleeping loop for ever.  Coroutines: a value, an exception, one that
    awaits a future which is then completed / failed by the loop side."""
    from plumpy import futures as pfutures
    out: Dict[str, Any] = {'n': 0, 'violations': [], 'nontrivial': 0}

    class IdleLoop(VLoop):
        woken = False

        def _write_to_self(self) -> None:
            self.woken = True

    for kind in ('value', 'exc', 'await-value', 'await-exc'):
        loop = IdleLoop()
        loop.install()
        try:
            gate = loop.create_future()
            err = ChainError('idle')

            async def coro() -> Any:
                if kind == 'value':
                    return 'v'
                if kind == 'exc':
                    raise err
                return await gate

            loop.woken = False
            # the request comes from another thread (a real one, joined at once: nothing runs concurrently), so that an
            # implementation which takes a shortcut when it is called on the loop's own thread is not mistaken
            import threading
            box: List[Any] = []
            caller = threading.Thread(target=lambda: box.append(pfutures.create_task(coro, loop=loop)))
            caller.start()
            caller.join()
            fut = box[0]
            out['n'] += 1
            out['nontrivial'] += 1
            for _ in range(3):
                if not loop.woken:
                    break  # nobody woke the sleeping loop: nothing runs
                loop.woken = False
                loop.drain()
                if not gate.done():
                    # the loop side completes what the coroutine waits for (a callback of its own, it is awake then)
                    loop.woken = True
                    if kind == 'await-value':
                        gate.set_result('v')
                    elif kind == 'await-exc':
                        gate.set_exception(err)
            got = status_of(fut)
            want = ('exc', err) if kind.endswith('exc') else ('value', 'v')
            if got != want:
                out['violations'].append({'clause': 'create_task:not-delivered-to-an-idle-loop', 'features': {'coroutine': kind},
                                          'detail': {'got': repr(got), 'want': repr(want)}, 'case': {'part': 'F', 'kind': kind}})
        finally:
            loop.shutdown()
    return out


def run_check(tier: str, seed: int, workers: Any) -> Dict[str, Any]:
    part_a = check_unwrap(3 if tier == 'quick' else 4)
    part_e = check_actions()
    part_f = check_idle_loop()
    out = runner.run_explorer(
        factory, (), loop_units(tier), {}, seed, workers, split=False,
        rule='B/D: chains of loop futures of depth <= D where each level ends with a value, an exception, a cancellation or the '
             'next level, mirrored by plum_to_kiwi_future + unwrap_kiwi_future or returned by a callback given to '
             'Process._schedule_rpc; C: futures.create_task over coroutines awaiting 0-2 gates; every order of the '
             'completions and every placement between loop callbacks; A: unwrap_kiwi_future on kiwi futures, every '
             'completion order and attachment point; E: every CancellableAction operation sequence of length <= 3; '
             'non-trivial = inner level completed before an outer one',
        assumptions=['a callback delivered by a communicator thread is modelled as a loop callback landing at an arbitrary '
                     'queue position', 'a callback raising directly in _schedule_rpc is wrapped by design and not judged'],
        bounds={'depth': 3 if tier == 'quick' else 4})
    out['coverage']['rule'] += ('; F: create_task asked for while the loop sits idle - the coroutine must be scheduled through the '
                                'call that wakes the loop')
    for extra in (part_a, part_e, part_f):
        out['coverage']['evaluations'] += extra['n']
        out['coverage']['traces_validated_against_impl'] += extra['n']
        out['coverage']['distinct_nontrivial'] += extra['nontrivial']
        out['coverage']['transitions'] += extra['n']
        best: Dict[Any, Any] = {}
        for v in extra['violations']:
            best.setdefault((v['clause'], repr(sorted(v['features'].items()))), v)
        out['violations'].extend(best.values())
    return out


def replay(doc: Dict[str, Any]) -> List[dict]:
    from ..cli import to_tuple
    case = doc.get('case')
    if case and case.get('part') == 'A':
        return check_unwrap(len(case['chain']))['violations']
    if case and case.get('part') == 'E':
        return check_actions()['violations']
    if case and case.get('part') == 'F':
        return check_idle_loop()['violations']
    unit = to_tuple(doc['unit'])
    return factory().make_run(unit)(Chooser(tuple(doc['choices']))).violations
