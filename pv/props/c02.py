# -*- coding: utf-8 -*-
"""C02 - all reports of a terminated process's outcome agree and waiters are released (DESIGN.md 3, C02)."""
from __future__ import annotations

from typing import Any, Dict, List

import plumpy

from .. import ctl, programs, runner
from ..ctl import ProcessState as PS
from ._common import CtlProperty, default_sample, describe_unit, features

from ._common import process_comms_text_key as _text_key  # noqa: E402

ID = 'C02'
ALPHABET = (('pause',), ('play',), ('kill', 't1'), ('kill', 't2'), ('resume', 'v1'), ('unask',))
FINAL_RESULT = {'ret': (programs.RET_VALUE, True), 'ret_none': (None, True), 'unsucc': (programs.UNSUCC_CODE, False),
                'stop_t': (programs.STOP_VALUE, True), 'stop_f': (programs.STOP_VALUE, False)}


class Oracle:
    def __init__(self, unit: Any) -> None:
        self.unit = unit
        self.checked_first = False
        self.live_future_reported = False

    def sample(self, w: ctl.World) -> None:
        proc = w.proc
        if not proc.has_terminated():
            # the future is never resolved while the process is live
            if proc.future().done() and not self.live_future_reported:
                self.live_future_reported = True
                w.violate('future-done-while-live', features(w, state=str(proc.state)), None)
        elif not self.checked_first:
            self.checked_first = True
            self.agreement(w, 'first-terminal-sample')

    def finish_capped(self, w: ctl.World) -> None:
        w.violate('livelock', features(w), 'tick horizon exceeded')

    def agreement(self, w: ctl.World, when: str) -> None:
        proc = w.proc
        state = proc.state
        fut = proc.future()
        f = lambda **kw: features(w, when=when, state=str(state), **kw)  # noqa: E731
        if not fut.done():
            w.violate('future-pending-after-termination', f(), None)
            return
        if state == PS.FINISHED:
            if fut.cancelled() or fut.exception() is not None:
                w.violate('finished:future-not-result', f(), repr(fut))
            elif fut.result() != proc.outputs:
                w.violate('finished:future-differs-from-outputs', f(), (repr(fut.result()), repr(proc.outputs)))
            last = [t for t in w.trace if t[3] == 'enter']
            if last and not w.program:  # a work chain of the barrier family: finishes with None after its last step
                if proc.result() is not None or not proc.successful() or last[-1][0] != 's3':
                    w.violate('finished:result', f(term='workchain'), (repr(proc.result()), proc.successful(), last[-1][0]))
            elif last:
                idx = int(last[-1][0][1:])
                term = w.program[idx][2]
                if term in FINAL_RESULT:
                    want = FINAL_RESULT[term]
                    if len(self.unit) > 2 and self.unit[2] == 'needs-output':
                        want = (want[0], False)  # result preserved, but not successful: a required output is missing
                    if proc.result() != want[0] or proc.successful() != want[1] or proc.is_successful != want[1]:
                        w.violate('finished:result', f(term=term), (repr(proc.result()), proc.successful()))
                else:
                    w.violate('finished:after-non-final-step', f(term=term), None)
            if proc.killed() or proc.exception() is not None:
                w.violate('finished:other-reports', f(), None)
        elif state == PS.EXCEPTED:
            exc = proc.exception()
            fexc = None if fut.cancelled() else fut.exception()
            if fexc is None or fexc is not exc:
                w.violate('excepted:future-exception-differs', f(exc=type(exc).__name__, fexc=type(fexc).__name__),
                          (repr(exc), repr(fexc)))
            try:
                proc.result()
                w.violate('excepted:result-does-not-raise', f(), None)
            except BaseException as got:  # noqa: BLE001
                if got is not exc:
                    w.violate('excepted:result-raises-other', f(), repr(got))
            known = list(w.raised) + [r.get('exc') for r in w.calls if r['op'] == 'fail']
            known += list(getattr(w, 'item_errors', {}).values())
            if exc not in known:
                w.violate('excepted:not-the-original-exception', f(exc=type(exc).__name__), repr(exc))
            if proc.killed() or proc.is_successful:
                w.violate('excepted:other-reports', f(), None)
        elif state == PS.KILLED:
            fexc = None if fut.cancelled() else fut.exception()
            if not isinstance(fexc, plumpy.KilledError):
                w.violate('killed:future-not-killederror', f(fut=repr(fut)[:60]), repr(fut))
            msg = proc.killed_msg()
            text = msg.get(_text_key()) if isinstance(msg, dict) else msg
            texts = {r['args'][0] for r in w.calls if r['op'] == 'kill' and r['args']}
            texts |= {programs.KILLCMD_TEXT}
            if text not in texts:
                w.violate('killed:text-not-issued', f(text=repr(text)), None)
            # (for a killed process the statement names the future and killed_msg(); what result() and exception() do
            #  is not laid down - only that the process does not also report itself successful or not killed)
            if not proc.killed() or proc.is_successful:
                w.violate('killed:other-reports', f(), None)

    def finish(self, w: ctl.World) -> None:
        proc = w.proc
        if proc.has_terminated():
            w.drain()
            self.agreement(w, 'end')
            # exactly one terminal notification, of the matching kind
            counts = {k: w.listener.counts.get(k, 0) for k in ('finished', 'excepted', 'killed')}
            want = {PS.FINISHED: 'finished', PS.EXCEPTED: 'excepted', PS.KILLED: 'killed'}[proc.state]
            if counts[want] != 1 or sum(counts.values()) != 1:
                w.violate('listener-terminal-notifications', features(w, state=str(proc.state), counts=counts), None)
            if w.cleanups != 1:
                w.violate('cleanup-count', features(w, n=w.cleanups, state=str(proc.state)), None)
            if not is_closed(proc):
                w.violate('not-closed', features(w, state=str(proc.state)), None)
            # step_until_terminated() returns (at the latest when what a step of its own awaits has completed: a step
            # that was in flight when the process was terminated from outside cannot be taken back)
            if not w.task.done():
                for g in w.pending_gates():
                    w.gates[g].set_result(f'g{g}')
                    w.drain()
            if not w.task.done():
                w.violate('stepping-task-blocked', features(w, state=str(proc.state)),
                          'the task running step_until_terminated() is still pending at quiescence')
            elif w.task.cancelled() or w.task.exception() is not None:
                w.violate('stepping-task-failed', features(w, state=str(proc.state)), repr(w.task))
        w.result.nontrivial = bool(w.ops_issued) and proc.has_terminated()
        w.result.outcome = (str(proc.state), tuple(w.entered), tuple((r['op'], str(r['ret'])) for r in w.calls))
        w.result.sample = default_sample(w)


def cfg_for(unit: Any) -> ctl.Config:
    return ctl.Config(alphabet=ALPHABET, closing=('gates', 'play', 'resume'), resume_default=('dflt',))


class NeedsOutput(plumpy.Process):
    """Base of programs whose output spec asks for an output they never emit: they finish, with their result, but not
    successfully (the final state is entered through the failed validation of the outputs)."""

    @classmethod
    def define(cls, spec: Any) -> None:
        super().define(spec)
        spec.output('needed', valid_type=int, required=True)


def cls_for(unit: Any) -> type:
    needs = len(unit) > 2 and unit[2] == 'needs-output'
    return programs.make_class(unit[0], NeedsOutput if needs else plumpy.Process)


PROP = CtlProperty(ID, Oracle, cfg_for, cls_for=cls_for)


def factory() -> CtlProperty:
    return PROP


def units_for(tier: str) -> List[Any]:
    kinds = ('S', 'Y1', 'G')
    finals = ('ret', 'ret_none', 'unsucc', 'stop_f', 'raise', 'killcmd')
    base = list(programs.linear_programs(2, kinds, ('cont', 'wait'), finals))
    base3 = list(programs.linear_programs(3, kinds, ('cont', 'wait'), ('ret',), min_len=3))
    units: List[Any] = [(p, None) for p in base + base3]
    small = list(programs.linear_programs(2, ('S', 'Y1'), ('cont', 'wait'), ('ret', 'raise')))
    units += [(p, None) for p in programs.with_actions(small, ('out', 'cs_raise', 'kill', 'pause'))]
    scripts = [(ev, 1, op) for ev in ('running', 'waiting', 'paused', 'output_emitted')
               for op in (('kill', 't1'),)]
    scripts += [(ev, 1, ('addl',)) for ev in ('running', 'finished')]
    for p in list(programs.linear_programs(2, ('S', 'Y1'), ('cont', 'wait'), ('ret',))):
        for s in scripts:
            units.append((p, s))
    for p in list(programs.with_actions(list(programs.linear_programs(1, ('S', 'Y1'), (), ('ret',))), ('out',))):
        units.append((p, ('output_emitted', 1, ('kill', 't1'))))
    # terminated from outside (a scheduled callback that raises) while an async step awaits a gate of its own
    # an exception object that is falsy is the original exception all the same
    units += [(p, None) for p in programs.linear_programs(2, ('S', 'Y1'), ('cont', 'wait'), ('raise0',))]
    gated = list(programs.linear_programs(2, ('G',), ('cont', 'wait'), ('ret', 'raise')))
    units += [(p, None) for p in programs.with_actions(gated, ('cs_raise',), wheres=('pre',))]
    # programs that finish without a required output (FINISHED is entered through the failed output validation)
    for p in programs.linear_programs(2, ('S', 'Y1'), ('cont', 'wait'), ('ret', 'unsucc')):
        units.append((p, None, 'needs-output'))
    # a one-shot listener, registered before the recording one, unsubscribes itself from inside a notification
    for p in list(programs.linear_programs(2, ('S', 'Y1'), ('cont', 'wait'), ('ret', 'raise', 'killcmd'))):
        for ev in ('running', 'waiting', 'finished', 'excepted', 'killed'):
            units.append((p, (ev, 1, ('oneshot',))))
    return units


WC_ALPHABET = (('pause',), ('play',), ('kill', 't1'), ('kill', 't2'), ('unask',))


def wc_cfg(unit: Any) -> ctl.Config:
    return ctl.Config(alphabet=WC_ALPHABET, closing=('gates', 'play'))


def wc_factory() -> CtlProperty:
    from .. import wcharness
    return CtlProperty(ID, Oracle, wc_cfg, cls_for=wcharness.cls_for, world_cls=wcharness.WcWorld)


def wc_units(tier: str) -> List[Any]:
    import itertools
    units: List[Any] = []
    for n in (1, 2):
        for items in itertools.product((('gate', 'ok'), ('gate', 'exc'), ('child', 'ok'), ('child', 'exc')), repeat=n):
            units.append(((items, 'return' if n == 1 else 'both', False), None))
    return units


from ._common import is_closed, is_wc_unit  # noqa: E402


def run_check(tier: str, seed: int, workers: Any) -> Dict[str, Any]:
    part1 = run_processes(tier, seed, workers)
    budget = {'K': 2, 'J': 2} if tier == 'quick' else {'K': 3, 'J': 2}
    part2 = runner.run_explorer(
        wc_factory, (), wc_units(tier), budget, seed, workers,
        rule='work chains awaiting 1-2 loop futures / launched children (succeeding or failing) under every placement of <=K '
             'requests from ' + repr(WC_ALPHABET) + ' and <=J early completions; same agreement oracle',
        assumptions=[], bounds=dict(budget, n_items=2), describe=lambda u: {'items': u[0][0], 'how': u[0][1]})
    for v in part2['violations']:
        v['features'] = dict(v.get('features', {}), part='workchain')
    tiny = [((('S', (), 'wait'), ('S', (), 'ret')), None), ((('Y1', (), 'ret'),), None)]
    deep = {'K': 4, 'J': 0} if tier == 'quick' else {'K': 5, 'J': 0}
    part3 = runner.run_explorer(
        deep_factory, (), tiny, deep, seed, workers,
        rule=f'the two smallest programs with <= {deep["K"]} requests, a pause with a message among them', assumptions=[],
        bounds=deep, describe=describe_unit)
    return runner.merge([part1, part2, part3])


DEEP_ALPHABET = (('pause',), ('pause', 'm'), ('play',), ('kill', 't1'), ('resume', 'v1'), ('unask',))


def deep_cfg(unit: Any) -> ctl.Config:
    return ctl.Config(alphabet=DEEP_ALPHABET, closing=('gates', 'play', 'resume'), resume_default=('dflt',))


def deep_factory() -> CtlProperty:
    return CtlProperty(ID, Oracle, deep_cfg, cls_for=cls_for)


def run_processes(tier: str, seed: int, workers: Any) -> Dict[str, Any]:
    budget = {'K': 2, 'J': 1} if tier == 'quick' else {'K': 3, 'J': 1}
    return runner.run_explorer(
        factory, (), units_for(tier), budget, seed, workers,
        rule='every placement of <=K requests from ' + repr(ALPHABET) + ' and <=J early gate completions between any two '
             'loop callbacks of every generated program (incl. kill while paused, during a step, from a listener); '
             'invariant sampled after every choice; non-trivial = terminated run with at least one request',
        assumptions=['what a step of its own awaits (a gate) completes eventually: stepping returns at the latest then', 'single event loop thread; control calls land between two loop callbacks',
                     'lifecycle hooks of the generated programs do not raise'],
        bounds=dict(budget, program_len=3), describe=describe_unit)


def replay(doc: Dict[str, Any]) -> List[Dict[str, Any]]:
    from ..cli import to_tuple
    if is_wc_unit(to_tuple(doc['unit'])):
        return wc_factory().replay(doc)
    # the recorded choices index the options of the alphabet they were made under: the main one or that of the deep part
    from ..explore import Nondeterminism
    found: List[Dict[str, Any]] = []
    for prop in (PROP, deep_factory()):
        try:
            got = prop.replay(doc)
        except Nondeterminism:
            continue
        if any(v.get('clause') == doc.get('clause') for v in got):
            return got
        found = found or got
    return found
