# -*- coding: utf-8 -*-
"""C11 - only spec-conforming inputs create a process; defaults applied, inputs immutable (DESIGN.md 3, C11).

Bounded-exhaustive: input specs (ports and nested namespaces over all attribute combinations, see ``specs``) x every
nested input dictionary over a small value domain; the constructor's verdict and ``inputs`` are compared with the
reference model ``pv.refports`` (which works on plain descriptions of the spec).
"""
from __future__ import annotations

import copy
import itertools
import multiprocessing as mp
import os
from typing import Any, Dict, Iterator, List, Tuple

import plumpy
from plumpy import ports as pports

from .. import explore
from .. import refports as R
from ..refports import ABSENT, NODEFAULT
from ..vloop import VLoop

ID = 'C11'

PORT_VALUES = (ABSENT, 1, 'a', -1)
EXTRAS = (None, ('u', 1), ('u', 'a'), ('u', (('v', 1),)), ('u', (('v', 'a'),)), ('u', ''), ('u', 0), ('u', (('v', ''),)))
# ('' and 0 are the falsy representatives: a wrong-typed and a well-typed one for an int-typed dynamic namespace)


def default_for(type_name: Any) -> Any:
    return 'd' if type_name == 'str' else 7


def port_variants(full: bool) -> List[tuple]:
    out = []
    for required in (True, False):
        for t in (None, 'int', 'str'):
            for dflt in ('none', 'value', 'callable'):
                for validator in (None, 'neg'):
                    if not full and validator and dflt != 'none' and t is not None:
                        continue
                    d = NODEFAULT if dflt == 'none' else (dflt, default_for(t))
                    out.append(('port', required, t, d, validator))
    return out


SMALL_PORTS = (
    ('port', True, None, NODEFAULT, None), ('port', False, 'int', NODEFAULT, None), ('port', True, 'str', NODEFAULT, 'neg'),
    ('port', True, 'int', ('value', 7), None), ('port', False, None, ('callable', 7), 'neg'),
)


def ns_variants(entries_list: List[tuple], full: bool) -> Iterator[tuple]:
    for entries in entries_list:
        for required in (True, False):
            for dyn in ('static', 'dynamic', 'dynamic_int'):
                for populate in (True, False):
                    for validator in (None, 'nsbad'):
                        if not full and validator and dyn == 'dynamic_int' and not populate:
                            continue
                        yield ('ns', required, dyn, populate, validator, entries)


def specs(tier: str) -> List[tuple]:
    """Top-level namespace descriptions (the top level is a required, populate_defaults namespace)."""
    full = tier != 'quick'
    out: List[tuple] = []
    ports = port_variants(True)
    # (1) one port, every attribute combination, under static / dynamic / typed-dynamic top level, with/without validator
    for p in ports:
        for dyn in ('static', 'dynamic', 'dynamic_int'):
            out.append(('ns', True, dyn, True, None, (('x', p),)))
        out.append(('ns', True, 'static', True, 'nsbad', (('x', p),)))
    # (2) two ports
    for p, q in itertools.product(SMALL_PORTS, repeat=2):
        out.append(('ns', True, 'static', True, None, (('x', p), ('y', q))))
    # (3) one nested namespace, every attribute combination, holding 0-2 ports
    inner_entries: List[tuple] = [()] + [(('x', p),) for p in SMALL_PORTS]
    inner_entries += [(('x', p), ('y', q)) for p in SMALL_PORTS[:3] for q in SMALL_PORTS[2:]]
    for sub in ns_variants(inner_entries, full):
        out.append(('ns', True, 'static', True, None, (('n', sub),)))
    # (4) namespace next to a port, and namespace below a validated / dynamic top level
    for sub in ns_variants(inner_entries[:4], False):
        out.append(('ns', True, 'static', True, None, (('x', SMALL_PORTS[0]), ('n', sub))))
        out.append(('ns', True, 'dynamic_int', True, 'nsbad', (('n', sub),)))
    # (5) depth 3: namespace in namespace
    deep_inner = [(('x', p),) for p in SMALL_PORTS[:4]]
    mids = list(ns_variants(deep_inner, False))
    if not full:
        mids = mids[::7]
    for mid in mids:
        for outer_req, outer_pop, outer_dyn in ((True, True, 'static'), (False, True, 'static'), (True, False, 'dynamic'),
                                                (False, False, 'dynamic_int')):
            out.append(('ns', True, 'static', True, None, (('n', ('ns', outer_req, outer_dyn, outer_pop, None, (('m', mid),))),)))
    # (7) the empty tuple as a value and as a default (one port, every attribute combination)
    for required in (True, False):
        for t in (None, 'int', 'tuple'):
            for dflt in (NODEFAULT, ('value', ()), ('callable', ()), ('value', (1,))):
                if t == 'int' and dflt != NODEFAULT:
                    continue  # (an invalid default is outside the alphabet)
                for validator in (None, 'neg'):
                    out.append(('ns', True, 'static', True, None, (('x', ('port', required, t, dflt, validator, 'tuples')),)))
    # (6) a namespace that has a default of its own (a mapping, plain or callable), next to an optional port so that several
    #     accepted inputs leave the namespace out
    side = ('x', ('port', False, 'int', NODEFAULT, None))
    ns_defaults = ((), (('x', 1),), (('x', 'a'),), (('u', 1),))
    for entries in ([()] + [(('x', p),) for p in SMALL_PORTS] + [(('x', SMALL_PORTS[1]), ('y', SMALL_PORTS[3]))]):
        for required in (True, False):
            for dyn in ('static', 'dynamic'):
                for populate in (True, False):
                    for how in ('value', 'callable'):
                        for dflt in ns_defaults:
                            out.append(('ns', True, 'static', True, None,
                                        (side, ('n', ('ns', required, dyn, populate, None, entries, (how, dflt))))))
    # ... and at depth 3: the default of the outer namespace holds a mapping for the inner one
    for mid_entries in ((('x', SMALL_PORTS[1]),), (('x', SMALL_PORTS[0]), ('y', SMALL_PORTS[3]))):
        for how in ('value', 'callable'):
            for dflt in ((), (('m', ()),), (('m', (('x', 1),)),)):
                for mid_pop in (True, False):
                    mid = ('ns', False, 'static', mid_pop, None, mid_entries)
                    out.append(('ns', True, 'static', True, None, (side, ('n', ('ns', False, 'static', True, None, (('m', mid),), (how, dflt))))))
    return out


TUPLE_VALUES = (ABSENT, (), (1,), 1)  # the empty tuple is a value like any other


def values_for(e: tuple, depth: int = 0) -> List[Any]:
    """All candidate values for an entry (ABSENT = key not given)."""
    if R.is_port(e):
        return list(TUPLE_VALUES if len(e) > 5 and e[5] == 'tuples' else PORT_VALUES)
    out: List[Any] = [ABSENT]
    if depth:
        out += [('raw', 0), ('raw', ''), ('raw', 1)]  # something that is no mapping where a namespace is declared
    names = [n for n, _ in e[5]]
    per_entry = [values_for(sub, depth + 1) for _, sub in e[5]]
    for combo in itertools.product(*per_entry):
        base = tuple((n, v) for n, v in zip(names, combo) if v is not ABSENT)
        for extra in (EXTRAS if depth < 2 else EXTRAS[:3] + EXTRAS[5:6]):
            out.append(('map', base + ((extra,) if extra is not None else ())))
    return out


def to_python(value: Any) -> Any:
    if value == () or (isinstance(value, tuple) and value and isinstance(value[0], int)):
        return value  # a tuple that is meant as a value
    if isinstance(value, tuple) and value and value[0] == 'raw':
        return value[1]
    if isinstance(value, tuple) and value and value[0] == 'map':
        return {k: to_python(v) for k, v in value[1]}
    if isinstance(value, tuple):  # nested dynamic mapping given as tuple of pairs
        return {k: to_python(v) for k, v in value}
    return value


def inputs_for(spec: tuple) -> List[Dict[str, Any]]:
    vals = values_for(spec)
    return [to_python(v) for v in vals if v is not ABSENT]


def build_namespace(namespace: pports.PortNamespace, desc: tuple) -> None:
    for name, e in desc[5]:
        if R.is_port(e):
            kwargs: Dict[str, Any] = {'required': e[1], 'valid_type': R.TYPES[e[2]]}
            if e[3] != NODEFAULT:
                kwargs['default'] = e[3][1] if e[3][0] == 'value' else (lambda v=e[3][1]: v)
            if e[4]:
                kwargs['validator'] = R.port_validator
            namespace[name] = pports.InputPort(name, **kwargs)
        else:
            sub = pports.PortNamespace(name, required=e[1], dynamic=e[2] != 'static',
                                       valid_type=int if e[2] == 'dynamic_int' else None, populate_defaults=e[3],
                                       validator=R.ns_validator if e[4] else None, **ns_default_kwargs(e))
            namespace[name] = sub
            build_namespace(sub, e)


def ns_default_kwargs(e: tuple) -> Dict[str, Any]:
    d = R.ns_default(e)
    if d == NODEFAULT:
        return {}
    if d[0] == 'value':
        return {'default': R.pairs_to_dict(d[1])}
    return {'default': lambda v=d[1]: R.pairs_to_dict(v)}


def make_class(desc: tuple) -> type:
    class Proc(plumpy.Process):
        @classmethod
        def define(cls, spec: Any) -> None:
            super().define(spec)
            top = spec.inputs
            top.dynamic = desc[2] != 'static'
            if desc[2] == 'dynamic_int':
                top.valid_type = int
            if desc[4]:
                top.validator = R.ns_validator
            build_namespace(top, desc)

    return Proc


def plain(value: Any) -> Any:
    if hasattr(value, 'items') and not isinstance(value, dict):
        return {k: plain(v) for k, v in value.items()}
    if isinstance(value, dict):
        return {k: plain(v) for k, v in value.items()}
    return value


_NEEDS: Dict[Any, bool] = {}


def needs_readings(desc: tuple) -> bool:
    """Whether the spec has anything the open readings are about: a nested namespace that is optional, not populated or
    has a default of its own."""
    if desc not in _NEEDS:
        def walk(e: tuple, depth: int) -> bool:
            if R.is_port(e):
                return False
            if depth and (not e[1] or not e[3] or R.ns_default(e) != NODEFAULT):
                return True
            return any(walk(sub, depth + 1) for _, sub in e[5])
        _NEEDS[desc] = walk(desc, 0)
    return _NEEDS[desc]


def poke_nested(mapping: Dict[str, Any]) -> None:
    """The caller goes on using the nested dictionaries it passed in."""
    for value in list(mapping.values()):
        if isinstance(value, dict):
            poke_nested(value)
            for key in list(value):
                if not isinstance(value[key], dict):
                    value[key] = 'changed-by-caller-later'
            value['zz_nested_later'] = 1


def has_nested_mapping(desc: tuple, given: Dict[str, Any]) -> bool:
    return any(not R.is_port(e) and isinstance(given.get(name), dict) for name, e in desc[5])


def freeze_nested(desc: tuple, given: Dict[str, Any]) -> Dict[str, Any]:
    """``given`` with the mapping of every *declared* namespace as an immutable mapping (a mapping under an undeclared,
    dynamic key may as well be meant as a value: not touched)."""
    from plumpy.utils import AttributesFrozendict

    def freeze(e: tuple, mapping: Dict[str, Any]) -> Dict[str, Any]:
        out = dict(mapping)
        for name, sub in e[5]:
            if not R.is_port(sub) and isinstance(mapping.get(name), dict):
                out[name] = AttributesFrozendict(freeze(sub, mapping[name]))
        return out

    return freeze(desc, given)


def declared_levels(desc: tuple, mapping: Any, path: Tuple[str, ...] = ()) -> Iterator[Tuple[Tuple[str, ...], Any]]:
    yield path, mapping
    for name, e in desc[5]:
        if not R.is_port(e) and hasattr(mapping, 'keys') and name in mapping:
            yield from declared_levels(e, mapping[name], path + (name,))


def feature_of(desc: tuple) -> Dict[str, Any]:
    kinds = set()

    def walk(e: tuple, depth: int) -> None:
        if R.is_port(e):
            if e[3] != NODEFAULT:
                kinds.add('default-' + e[3][0])
            if e[4]:
                kinds.add('port-validator')
            if e[2]:
                kinds.add('typed')
            if len(e) > 5:
                kinds.add('tuple-values')
        else:
            if depth:
                kinds.add('namespace')
                if not e[1]:
                    kinds.add('optional-ns')
                if not e[3]:
                    kinds.add('no-populate')
            if e[2] != 'static':
                kinds.add(e[2])
            if e[4]:
                kinds.add('ns-validator')
            if R.ns_default(e) != NODEFAULT:
                kinds.add('ns-default-' + R.ns_default(e)[0])
            for _, sub in e[5]:
                walk(sub, depth + 1)

    walk(desc, 0)
    return {'spec_features': sorted(kinds)}


def check_spec(desc: tuple) -> Dict[str, Any]:
    out: Dict[str, Any] = {'n': 0, 'violations': [], 'accepted': 0, 'rejected': 0}
    cls = make_class(desc)
    loop = VLoop()
    loop.install()
    first_accepted: List[Tuple[Any, Any]] = []
    try:
        all_inputs = inputs_for(desc)
        for given in all_inputs:
            out['n'] += 1
            caller = copy.deepcopy(given)
            snapshot = copy.deepcopy(given)
            # the readings the statement leaves open (an empty mapping given explicitly for an optional namespace: nothing or
            # something; an optional namespace not given at all: looked into once the defaults are filled in, or not; a
            # namespace's own default: completed with the defaults inside or taken as it is) give up to six acceptable
            # answers; the implementation has to agree with one of them
            def reading(strict: bool, verbatim: bool, skip_absent: bool, require_ns: bool, keep_empty: bool) -> Tuple[bool, Any]:
                try:
                    return (True, R.accept(desc, copy.deepcopy(given), strict, verbatim, skip_absent, require_ns, keep_empty))
                except R.Rejected as exc:
                    return (False, str(exc))

            readings: List[Tuple[bool, Any]] = [reading(False, False, False, False, False)]

            def all_readings() -> List[Tuple[bool, Any]]:
                # computed only when the implementation does not agree with the first reading
                if len(readings) == 1 and needs_readings(desc):
                    for strict, skip_absent in ((False, False), (True, False), (True, True)):
                        for verbatim in (False, True):
                            for require_ns in (False, True):  # a required, non-populated namespace not supplied: missing?
                                for keep_empty in (False, True):  # {} given for a non-populated namespace: filled in or kept?
                                    if (strict, skip_absent, verbatim, require_ns, keep_empty) != (False, False, False, False, False):
                                        readings.append(reading(strict, verbatim, skip_absent, require_ns, keep_empty))
                return readings

            want_ok, want = readings[0]

            def violate(clause: str, detail: Any = None, **feats: Any) -> None:
                f = feature_of(desc)
                f.update(feats)
                out['violations'].append({'clause': clause, 'features': f, 'detail': detail,
                                          'case': {'spec': desc, 'inputs': snapshot}})

            try:
                proc = cls(inputs=caller, pid='c11', loop=loop)
                got_ok = True
            except Exception as exc:  # noqa: BLE001 - any refusal counts as "construction raises"
                got_ok, proc, err = False, None, exc
            if got_ok != want_ok and got_ok not in {ok for ok, _ in all_readings()}:
                violate('accepts-what-spec-rejects' if got_ok else 'rejects-what-spec-accepts',
                        {'model': want, 'impl': 'constructed' if got_ok else repr(err)})  # type: ignore[possibly-undefined]
                if proc is not None:
                    proc.close()
                continue
            if caller != snapshot:
                violate('caller-dictionary-changed', {'before': snapshot, 'after': caller})
            if has_nested_mapping(desc, snapshot):
                # the same inputs with every nested mapping handed over as an immutable mapping (what the ``inputs`` of
                # another process are made of): same verdict, same parsed inputs
                out['n'] += 1
                frozen_given = freeze_nested(desc, snapshot)
                try:
                    twin = cls(inputs=frozen_given, pid='c11f', loop=loop)
                    twin_ok, twin_inputs = True, plain(twin.inputs)
                    twin.close()
                except Exception as exc:  # noqa: BLE001
                    twin_ok, twin_inputs, twin_err = False, None, exc
                # ... and with only the outermost declared namespaces immutable, plain dictionaries further down (what one
                # gets from ``{**other.inputs}``): the caller's dictionaries stay exactly as given there too
                outer = {k: (type(v)(plain(v)) if hasattr(v, 'items') and not isinstance(v, dict) else v) for k, v in frozen_given.items()}
                if any(isinstance(x, dict) for v in outer.values() if hasattr(v, 'items') and not isinstance(v, dict) for x in v.values()):
                    out['n'] += 1
                    before = copy.deepcopy(plain(outer))
                    try:
                        mixed = cls(inputs=outer, pid='c11m', loop=loop)
                        mixed.close()
                    except Exception:  # noqa: BLE001 - the verdict is judged through the fully frozen twin
                        pass
                    if plain(outer) != before:
                        violate('frozen-mappings:caller-dictionary-changed', {'before': before, 'after': plain(outer)})
                # (refusing such a mapping altogether is not judged: the quantifier speaks of input *dictionaries*)
                if twin_ok and not got_ok:
                    violate('frozen-mappings:accepts-what-spec-rejects', {'model': want, 'impl': 'constructed'})
                elif twin_ok and twin_inputs != plain(proc.inputs):
                    violate('frozen-mappings:inputs-differ', {'frozen': twin_inputs, 'plain': plain(proc.inputs)})
            if not got_ok:
                out['rejected'] += 1
                continue
            out['accepted'] += 1
            got = plain(proc.inputs)
            if len(first_accepted) < 3:
                first_accepted.append((snapshot, copy.deepcopy(got)))
            if not (want_ok and R.prune(got) == R.prune(want)) and not any(ok and R.prune(got) == R.prune(w) for ok, w in all_readings()):
                violate('inputs-differ', {'got': got, 'want': want})
            raw = plain(proc.raw_inputs)
            if raw != snapshot:
                violate('raw-inputs-differ', {'got': raw, 'given': snapshot})
            else:
                # ... and stay as given when the caller goes on using its dictionary (e.g. for the next process)
                poke_nested(caller)  # ... at every nesting level
                caller['zz_later'] = 1
                for key in list(snapshot):
                    caller[key] = 'overwritten-later'
                if plain(proc.raw_inputs) != snapshot:
                    violate('raw-inputs-alias-the-callers-dictionary', {'got': plain(proc.raw_inputs), 'given': snapshot})
            # read-only at every declared namespace level
            for path, level in declared_levels(desc, proc.inputs):
                before = plain(level)
                for attempt in ('setitem', 'delitem', 'setattr'):
                    try:
                        if attempt == 'setitem':
                            level['zz_new'] = 1
                        elif attempt == 'delitem':
                            if before:
                                del level[next(iter(before))]
                        else:
                            setattr(level, next(iter(before), 'zz_attr'), 'changed')
                    except Exception:  # noqa: BLE001 - refusing is what is wanted
                        pass
                if plain(level) != before:
                    violate('inputs-mutable', {'path': list(path)}, level='.'.join(path) or '<top>')
                    break
                # the attribute view of the level shows the same values as the item view, also after those attempts
                views = {k: plain(getattr(level, k, '<no attribute>')) for k in before if k.isidentifier()}
                if views != {k: v for k, v in before.items() if k.isidentifier()}:
                    violate('inputs-mutable', {'path': list(path), 'attribute_view': views, 'items': before},
                            level='.'.join(path) or '<top>', through='attribute')
                    break
            proc.close()
        # what a process gets does not depend on the processes of the class built (and poked at) before it
        for given, earlier in first_accepted:
            out['n'] += 1
            try:
                proc = cls(inputs=copy.deepcopy(given), pid='c11', loop=loop)
                again: Any = plain(proc.inputs)
                proc.close()
            except Exception as exc:  # noqa: BLE001
                again = f'raised {exc!r}'
            if again != earlier:
                f = feature_of(desc)
                out['violations'].append({'clause': 'inputs-depend-on-earlier-processes', 'features': f,
                                          'detail': {'first': earlier, 'later': again}, 'case': {'spec': desc, 'inputs': given}})
                break
    finally:
        loop.shutdown()
    return out


def _work(chunk: List[tuple]) -> Dict[str, Any]:
    total: Dict[str, Any] = {'n': 0, 'violations': [], 'accepted': 0, 'rejected': 0, 'specs': 0, 'both': 0}
    for desc in chunk:
        try:
            with explore.watchdog(20 * explore.WATCHDOG_S):
                res = check_spec(desc)
        except explore.Hang as hang:
            res = {'n': 0, 'accepted': 0, 'rejected': 0,
                   'violations': [{'clause': 'hang', 'features': {}, 'detail': str(hang), 'case': {'spec': desc, 'inputs': None}}]}
        except Exception as exc:  # noqa: BLE001
            res = {'n': 0, 'accepted': 0, 'rejected': 0,
                   'violations': [{'clause': 'spec-definition-raised', 'features': {'exc': type(exc).__name__},
                                   'detail': repr(exc), 'case': {'spec': desc, 'inputs': None}}]}
        total['specs'] += 1
        total['n'] += res['n']
        total['accepted'] += res['accepted']
        total['rejected'] += res['rejected']
        if res['accepted'] and res['rejected']:
            total['both'] += 1
        for v in res['violations'][:6]:
            if len(total['violations']) < 300:
                total['violations'].append(v)
    return total


def run_check(tier: str, seed: int, workers: Any) -> Dict[str, Any]:
    all_specs = specs(tier)
    size = 12
    chunks = [all_specs[i:i + size] for i in range(0, len(all_specs), size)]
    k = seed % max(1, len(chunks))
    chunks = chunks[k:] + chunks[:k]
    total: Dict[str, Any] = {'n': 0, 'violations': [], 'accepted': 0, 'rejected': 0, 'specs': 0, 'both': 0}
    with mp.get_context('fork').Pool(workers or min(16, os.cpu_count() or 1)) as pool:
        for res in pool.imap_unordered(_work, chunks):
            for key in ('n', 'accepted', 'rejected', 'specs', 'both'):
                total[key] += res[key]
            total['violations'].extend(res['violations'])
    best: Dict[Any, Any] = {}
    for v in total['violations']:
        key = (v['clause'], repr(sorted(v['features'].items())))
        size_key = (len(repr(v['case'])), repr(v['case']))
        if key not in best or size_key < best[key][0]:
            best[key] = (size_key, v)
    violations = [v for _, v in sorted(best.values(), key=lambda x: x[0])]
    sample_spec = all_specs[(seed * 7919 + 11) % len(all_specs)]
    sample_inputs = inputs_for(sample_spec)
    coverage = {
        'evaluations': total['n'], 'distinct_nontrivial': total['both'], 'states': total['specs'],
        'transitions': total['n'], 'traces_validated_against_impl': total['n'],
        'accepted': total['accepted'], 'rejected': total['rejected'],
        'rule': 'specs = every InputPort attribute combination (required x valid_type x default none/value/callable x '
                'validator) under static/dynamic/typed-dynamic and validated top levels, pairs of ports, one nested '
                'namespace over every attribute combination (required x static/dynamic/typed x populate_defaults x '
                'validator) with 0-2 ports, namespace next to a port, depth-3 nesting, namespaces with a default mapping of their '
                'own (plain or callable; conforming, non-conforming, holding a nested namespace); inputs = every nested dictionary '
                'over {absent, 1, "a", -1} per port, {absent, {}, ...} per namespace and undeclared keys '
                '{u:1, u:"a", u:{v:1}, u:{v:"a"}}; states = specs, distinct_nontrivial = specs with at least one '
                'accepted and one rejected input; the first accepted inputs of every spec are constructed once more at the '
                'end and must give the same inputs; every input with a nested mapping is given once more with all nested '
                'mappings as immutable AttributesFrozendict and must get the same verdict and the same inputs',
        'samples': [{'spec': repr(sample_spec), 'inputs': repr(sample_inputs[len(sample_inputs) // 2])}],
        'exhaustive': True,
    }
    return {'violations': violations, 'coverage': coverage, 'errors': [], 'level': 'model_checking',
            'assumptions': ['outside the alphabet (statement silent): None as a value, '
                            'immutable mappings at the top level (the constructor is annotated with dict), '
                            'one-argument validators, invalid static defaults of ports',
                            'presence of empty mappings for declared namespaces is not judged',
                            'the "random beyond" part of the quantifier is sampling and is not done (different family)'],
            'bounds': {'tier': tier, 'specs': len(all_specs), 'depth': 3}}


def replay(doc: Dict[str, Any]) -> List[dict]:
    from ..cli import to_tuple
    spec = to_tuple(doc['case']['spec'])
    res = check_spec(spec)
    import json
    want = doc['case'].get('inputs')
    same = lambda a: json.loads(json.dumps(a, default=repr)) == want  # noqa: E731 - the recorded case went through JSON
    return [v for v in res['violations'] if want is None or same(v['case']['inputs'])] or res['violations'][:0]
