# -*- coding: utf-8 -*-
"""C14 - persisters are a snapshot store keyed by (pid, tag), equivalent to each other (DESIGN.md 3, C14).

Explicit-state breadth-first search over operation histories: a state is the history reaching it, ``build`` replays it on
fresh real objects (an InMemoryPersister and a PicklePersister on a fresh /dev/shm directory driven in lock-step, two live
processes), the canonical key is the content of the dictionary model plus the progress of the live processes; the oracle
(agreement with the dictionary model and with each other) is evaluated after every operation.
"""
from __future__ import annotations

import collections
import multiprocessing as mp
import os
import shutil
import tempfile
import uuid
from typing import Any, Dict, List, Optional, Tuple

import plumpy
from plumpy import persistence

from .. import explore
from ..vloop import VLoop

ID = 'C14'
SHM = '/dev/shm' if os.path.isdir('/dev/shm') else tempfile.gettempdir()

ID_KINDS = {
    'int': (1, 11),  # 11 shares a string prefix with 1
    'uuid': (uuid.UUID('00000000-0000-0000-0000-000000000001'), uuid.UUID('00000000-0000-0000-0000-000000000011')),
    'str': ('p', 'pq'),
}
# (falsy tags - 0 and '' - are tags like any other and not "no tag"; 1/11 and 't'/'tu' are string prefixes of each other)
TAGS_BY_KIND = {'int': (None, 0, 11, 1), 'uuid': (None, 't', 'tu'), 'str': (None, '', 'tu', 't')}


@persistence.auto_persist('extra')
class Stepper(plumpy.Process):
    """A live process that can be advanced by the harness: each advance emits an output and moves to the next state."""

    extra: Any = None

    @classmethod
    def define(cls, spec: Any) -> None:
        super().define(spec)
        spec.outputs.dynamic = True

    def run(self) -> Any:
        return plumpy.Wait(self.s1, 'w0')

    def s1(self, value: Any = None) -> Any:
        self.out('o1', [1])
        return plumpy.Wait(self.s2, 'w1')

    def s2(self, value: Any = None) -> Any:
        self.out('o2', {'k': 2})
        return plumpy.Wait(self.s3, 'w2')

    def s3(self, value: Any = None) -> Any:
        return 3


@persistence.auto_persist('extra')
class Chain(plumpy.WorkChain):
    """A live work chain advanced one step at a time; its steps mutate objects held in ctx *in place*."""

    extra: Any = None

    @classmethod
    def define(cls, spec: Any) -> None:
        super().define(spec)
        spec.outputs.dynamic = True
        spec.outline(cls.a, cls.b, cls.c)

    def a(self) -> None:
        self.ctx.items = ['a']
        self.ctx.nested = {'n': [1]}

    def b(self) -> None:
        self.ctx.items.append('b')
        self.ctx.nested['n'].append(2)
        self.out('ob', list(self.ctx.items))

    def c(self) -> None:
        self.ctx.items.append('c')
        self.ctx.nested['m'] = 3


def canon_bundle(bundle: Any) -> Any:
    def c(v: Any) -> Any:
        if isinstance(v, dict):
            # (whether and where a snapshot records the object loader in force is the persister's business)
            return {k: c(x) for k, x in v.items() if k != persistence.META__OBJECT_LOADER and not (k == persistence.META__USER and not c(x))}
        if isinstance(v, (list, tuple)):
            return [c(x) for x in v]
        if isinstance(v, BaseException):
            return (type(v).__name__, v.args)
        if hasattr(v, 'items'):
            return {k: c(x) for k, x in v.items()}
        return v
    return c(dict(bundle))


def operations(kind: str, n_tags: int) -> List[tuple]:
    pids = ID_KINDS[kind]
    tags = TAGS_BY_KIND[kind][:n_tags]
    ops: List[tuple] = []
    for i in range(2):
        for tag in tags:
            ops.append(('save', i, tag))
        ops.append(('save_bad', i, tags[-1]))
        ops.append(('advance', i))
    for i in range(2):
        for tag in tags:
            ops.append(('load', i, tag))
            ops.append(('continue', i, tag))
            ops.append(('delete', i, tag))
        ops.append(('list_proc', i))
        ops.append(('delete_proc', i))
    ops.append(('list',))
    return ops


class System:
    """Fresh real objects for one history."""

    def __init__(self, kind: str) -> None:
        self.kind = kind
        self.loop = VLoop()
        self.loop.install()
        self.dir = tempfile.mkdtemp(prefix='pvc14_', dir=SHM)
        self.mem = persistence.InMemoryPersister()
        self.pkl = persistence.PicklePersister(self.dir)
        pids = ID_KINDS[kind]
        self.procs = [Chain(pid=pids[0], loop=self.loop), Stepper(pid=pids[1], loop=self.loop)]
        self.loop.create_task(self.procs[1].step_until_terminated())
        self.loop.drain()
        for _ in range(2):  # bring the work chain to the point where its ctx holds mutable objects
            self.loop.create_task(self.procs[0].step())
            self.loop.drain()
        self.model: Dict[Tuple[Any, Any], Any] = {}
        self.progress = [0, 0]
        self.version = 0

    def close(self) -> None:
        self.loop.shutdown()
        shutil.rmtree(self.dir, ignore_errors=True)

    def apply(self, op: tuple) -> List[Tuple[str, Dict[str, Any], Any]]:
        """Apply one operation to both persisters and to the model; returns oracle failures."""
        bad: List[Tuple[str, Dict[str, Any], Any]] = []
        kind = op[0]
        pids = ID_KINDS[self.kind]

        def both(fn: Any) -> List[Tuple[str, Any]]:
            res = []
            for name, p in (('memory', self.mem), ('pickle', self.pkl)):
                try:
                    res.append(('ok', fn(p)))
                except Exception as exc:  # noqa: BLE001
                    res.append(('raised', exc))
            return res

        if kind == 'advance':
            proc = self.procs[op[1]]
            if not proc.has_terminated():
                if isinstance(proc, Chain):
                    task = self.loop.create_task(proc.step())  # the work chain is stepped by hand, one state at a time
                    self.loop.drain()
                    task.result()
                else:
                    proc.resume('go')
                    self.loop.drain()
                self.progress[op[1]] += 1
            return bad
        if kind == 'save':
            proc = self.procs[op[1]]
            res = both(lambda p: p.save_checkpoint(proc, op[2]))
            snapshot = canon_bundle(persistence.Bundle(proc, dereference=True))
            self.model[(pids[op[1]], op[2])] = snapshot
            for (name, (status, value)) in zip(('memory', 'pickle'), res):
                if status != 'ok':
                    bad.append(('save-raised', {'persister': name, 'id_kind': self.kind}, repr(value)))
            return bad
        if kind == 'save_bad':
            # a save that cannot succeed (the process holds something that can be neither copied nor pickled): whatever
            # the persisters answer, the store stays what it was
            import threading
            proc = self.procs[op[1]]
            # (a persisted member of the harness's own classes: nothing is assumed about what ctx / outputs hand out)
            proc.extra = threading.Lock()
            try:
                res = both(lambda p: p.save_checkpoint(proc, op[2]))
            finally:
                proc.extra = None
            for (name, (status, value)) in zip(('memory', 'pickle'), res):
                if status == 'ok':
                    bad.append(('unsavable-state-saved', {'persister': name, 'id_kind': self.kind}, None))
            bad.extend(self.apply(('list',)))
            bad.extend(self.audit('failed-save'))
            return bad
        if kind == 'load':
            key = (pids[op[1]], op[2])
            res = both(lambda p: p.load_checkpoint(*key))
            for (name, (status, value)) in zip(('memory', 'pickle'), res):
                if key in self.model:
                    if status != 'ok':
                        bad.append(('load-of-stored-key-raised', {'persister': name, 'id_kind': self.kind}, repr(value)))
                    elif canon_bundle(value) != self.model[key]:
                        got = canon_bundle(value)
                        keys = sorted(k for k in set(got) | set(self.model[key]) if got.get(k) != self.model[key].get(k))
                        bad.append(('load-returns-other-snapshot', {'persister': name, 'id_kind': self.kind,
                                                                    'differs': keys[0] if keys else '?'}, keys))
                elif status == 'ok' and value is not None:  # (an absent key may raise or answer None, like a map; not a bundle)
                    bad.append(('load-of-absent-key-returns', {'persister': name, 'id_kind': self.kind}, repr(value)[:100]))
            return bad
        if kind == 'continue':
            # a process recreated from the stored snapshot runs to its end (in place mutation of what it holds included);
            # the store must not notice: every stored key still loads as the snapshot taken when it was saved
            key = (pids[op[1]], op[2])
            if key not in self.model:
                return bad
            ends = []
            for name, p in (('memory', self.mem), ('pickle', self.pkl)):
                try:
                    ends.append(self.run_loaded(p.load_checkpoint(*key)))
                except Exception as exc:  # noqa: BLE001
                    bad.append(('continuing-a-loaded-snapshot-raised', {'persister': name, 'id_kind': self.kind}, repr(exc)))
                    ends.append(None)
            if None not in ends and ends[0] != ends[1]:
                bad.append(('continued-snapshots-differ', {'id_kind': self.kind}, {'memory': ends[0], 'pickle': ends[1]}))
            bad.extend(self.audit('continue'))
            return bad
        if kind in ('list', 'list_proc'):
            if kind == 'list':
                res = both(lambda p: p.get_checkpoints())
                want = sorted(self.model, key=repr)
            else:
                pid = pids[op[1]]
                res = both(lambda p: p.get_process_checkpoints(pid))
                want = sorted((k for k in self.model if k[0] == pid), key=repr)
            for (name, (status, value)) in zip(('memory', 'pickle'), res):
                if status != 'ok':
                    bad.append(('listing-raised', {'persister': name, 'id_kind': self.kind, 'op': kind}, repr(value)))
                else:
                    got = sorted(((c.pid, c.tag) for c in value), key=repr)
                    if got != want:
                        bad.append(('listing-differs', {'persister': name, 'id_kind': self.kind, 'op': kind},
                                    {'got': got, 'want': want}))
            return bad
        if kind == 'delete':
            key = (pids[op[1]], op[2])
            res = both(lambda p: p.delete_checkpoint(*key))
            self.model.pop(key, None)
        elif kind == 'delete_proc':
            pid = pids[op[1]]
            res = both(lambda p: p.delete_process_checkpoints(pid))
            for key in [k for k in self.model if k[0] == pid]:
                del self.model[key]
        else:  # pragma: no cover
            raise AssertionError(op)
        for (name, (status, value)) in zip(('memory', 'pickle'), res):
            if status != 'ok':
                bad.append(('delete-raised', {'persister': name, 'id_kind': self.kind, 'op': kind}, repr(value)))
        # after every mutation the listings must agree with the model (this is what makes a wrong delete visible)
        bad.extend(self.apply(('list',)))
        return bad

    def run_loaded(self, bundle: Any) -> Any:
        proc = bundle.unbundle(persistence.LoadSaveContext(loop=self.loop))
        if isinstance(proc, Chain):
            self.loop.create_task(proc.step_until_terminated())
            self.loop.drain()
        else:
            self.loop.create_task(proc.step_until_terminated())
            self.loop.drain()
            for _ in range(4):
                if proc.has_terminated():
                    break
                proc.resume('go')
                self.loop.drain()
        ctx = canon_bundle(dict(proc.ctx.__dict__)) if isinstance(proc, Chain) else None
        return (str(proc.state), repr(proc.result() if proc.state == plumpy.ProcessState.FINISHED else None),
                repr(canon_bundle(proc.outputs)), repr(ctx))

    def audit(self, after: str) -> List[Tuple[str, Dict[str, Any], Any]]:
        """Every stored key loads, from both persisters, as the snapshot taken when it was saved."""
        bad: List[Tuple[str, Dict[str, Any], Any]] = []
        for key, want in self.model.items():
            for name, p in (('memory', self.mem), ('pickle', self.pkl)):
                try:
                    got = canon_bundle(p.load_checkpoint(*key))
                except Exception as exc:  # noqa: BLE001
                    bad.append(('load-of-stored-key-raised', {'persister': name, 'id_kind': self.kind, 'after': after}, repr(exc)))
                    continue
                if got != want:
                    keys = sorted(k for k in set(got) | set(want) if got.get(k) != want.get(k))
                    bad.append(('load-returns-other-snapshot', {'persister': name, 'id_kind': self.kind, 'after': after,
                                                                'differs': keys[0] if keys else '?'}, keys))
        return bad

    def key(self) -> Any:
        return (tuple(sorted(((repr(k), repr(v.get('_state', {}).get('msg')) + repr(sorted(v.get('OUTPUTS', {})))
                               + repr(v.get('_context', {}).get('items')) + repr(v.get('_state', {}).get('!!meta', {}).get('class_name')))
                              for k, v in self.model.items()))), tuple(self.progress))


def build(kind: str, history: Tuple[tuple, ...], audit_last: bool = False) -> Tuple[System, List[Tuple[str, Dict[str, Any], Any]]]:
    system = System(kind)
    bad: List[Tuple[str, Dict[str, Any], Any]] = []
    for i, op in enumerate(history):
        found = system.apply(op)
        if i == len(history) - 1:
            bad = found
            if op[0] == 'advance':
                bad = bad + system.audit('advance')
            elif audit_last and op[0] not in ('continue', 'save_bad'):
                bad = bad + system.audit('history') + system.apply(('list',))
    return system, bad


def focused_operations(kind: str) -> List[tuple]:
    """The sub-alphabet of the undeduplicated search: everything about one key (process 0, one tag) plus what can interfere
    with it (the untagged checkpoint of the same process, the deletion of all its checkpoints, its progress)."""
    tags = TAGS_BY_KIND[kind]
    t = tags[1]
    return [('save', 0, t), ('advance', 0), ('load', 0, t), ('delete', 0, t), ('save', 0, tags[0]), ('delete_proc', 0),
            ('continue', 0, t), ('list',)]


def histories(args: Tuple[str, int, tuple]) -> Dict[str, Any]:
    """Every history of exactly the given first operation followed by up to depth-1 more operations of the focused
    alphabet - *without* merging histories that reach the same canonical state: a persister that keeps something besides
    its store (a cache of what it wrote or read) differs between histories the canonical state cannot tell apart.  After
    the last operation of every history all stored keys are loaded from both persisters and the listings compared."""
    kind, depth, first = args
    ops = focused_operations(kind)
    out: Dict[str, Any] = {'n': 0, 'violations': [], 'overwrites': 0}
    stack: List[Tuple[tuple, ...]] = [(first,)]
    while stack:
        hist = stack.pop()
        with explore.watchdog(4 * explore.WATCHDOG_S):
            system, bad = build(kind, hist, audit_last=True)
        system.close()
        out['n'] += 1
        if hist[-1][0] == 'save' and hist[-1] in hist[:-1]:
            out['overwrites'] += 1
        for clause, feats, detail in bad:
            if len(out['violations']) < 40:
                out['violations'].append({'clause': clause, 'features': dict(feats, search='histories'), 'detail': detail,
                                          'case': {'id_kind': kind, 'history': hist, 'audit_last': True}})
        if len(hist) < depth:
            for op in ops:
                stack.append(hist + (op,))
    return out


def bfs(args: Tuple[str, int, int]) -> Dict[str, Any]:
    kind, n_tags, max_depth = args
    ops = operations(kind, n_tags)
    root = System(kind)
    seen = {root.key()}
    root.close()
    frontier: collections.deque = collections.deque([()])
    out: Dict[str, Any] = {'states': 1, 'transitions': 0, 'violations': [], 'max_depth': 0, 'overwrites': 0, 'closed': True}
    while frontier:
        hist = frontier.popleft()
        if len(hist) >= max_depth:
            out['closed'] = False
            continue
        for op in ops:
            new = hist + (op,)
            with explore.watchdog(4 * explore.WATCHDOG_S):
                system, bad = build(kind, new)
            try:
                out['transitions'] += 1
                for clause, feats, detail in bad:
                    if len(out['violations']) < 60:
                        out['violations'].append({'clause': clause, 'features': feats, 'detail': detail,
                                                  'case': {'id_kind': kind, 'history': new}})
                if op[0] == 'save' and any(h == op for h in hist):
                    out['overwrites'] += 1
                k = system.key()
            finally:
                system.close()
            if k not in seen:
                seen.add(k)
                frontier.append(new)
                out['max_depth'] = max(out['max_depth'], len(new))
    out['states'] = len(seen)
    return out


def run_check(tier: str, seed: int, workers: Any) -> Dict[str, Any]:
    if tier == 'quick':
        jobs = [(kind, 2, 3) for kind in ID_KINDS]
    else:
        jobs = [(kind, 2, 4) for kind in ID_KINDS] + [(kind, 3, 3) for kind in ID_KINDS]
    k = seed % len(jobs)
    jobs = jobs[k:] + jobs[:k]
    total = {'states': 0, 'transitions': 0, 'violations': [], 'overwrites': 0, 'closed': True, 'max_depth': 0}
    with mp.get_context('fork').Pool(min(len(jobs), workers or os.cpu_count() or 1)) as pool:
        for res in pool.imap_unordered(bfs, jobs):
            total['states'] += res['states']
            total['transitions'] += res['transitions']
            total['overwrites'] += res['overwrites']
            total['closed'] = total['closed'] and res['closed']
            total['max_depth'] = max(total['max_depth'], res['max_depth'])
            total['violations'].extend(res['violations'])
    depth = 4 if tier == 'quick' else 5
    hjobs = [(kind, depth, op) for kind in ID_KINDS for op in focused_operations(kind)]
    n_hist = 0
    with mp.get_context('fork').Pool(min(len(hjobs), workers or os.cpu_count() or 1)) as pool:
        for res in pool.imap_unordered(histories, hjobs):
            n_hist += res['n']
            total['transitions'] += res['n']
            total['overwrites'] += res['overwrites']
            total['violations'].extend(res['violations'])
    best: Dict[Any, Any] = {}
    for v in total['violations']:
        key = (v['clause'], repr(sorted(v['features'].items())))
        if key not in best or len(v['case']['history']) < len(best[key]['case']['history']):
            best[key] = v
    violations = sorted(best.values(), key=lambda v: (len(v['case']['history']), v['clause']))
    coverage = {
        'states': total['states'], 'transitions': total['transitions'], 'traces_validated_against_impl': total['transitions'],
        'evaluations': total['transitions'], 'distinct_nontrivial': total['overwrites'],
        'rule': 'BFS over histories of save(p,tag) / advance(p) / load / continue (recreate a process from the stored '
                'snapshot and run it to its end, then re-load every stored key) / save of a state that cannot be saved / delete / delete_process / listings on 2 live '
                'processes x tags, for integer, UUID and string ids (ids and tags chosen so that one is a string prefix of '
                'the other); canonical state = stored (pid, tag) -> snapshot version + progress of the live processes; '
                'both persisters driven in lock-step and compared with a dictionary model after every operation; '
                'distinct_nontrivial = transitions that overwrite an existing key || every history (no merging of histories) '
                f'of <= {depth} operations over the focused alphabet of one key (save / advance / load / delete / continue of '
                '(process 0, tag), save of its untagged checkpoint, deletion of all its checkpoints, listing), each followed '
                'by a load of every stored key from both persisters and the listing',
        'undeduplicated_histories': n_hist, 'history_depth': depth,
        'samples': [{'id_kind': jobs[0][0], 'history': [list(map(repr, op)) for op in operations(jobs[0][0], 2)[:4]]}],
        'exhaustive': True, 'closure_reached': total['closed'], 'max_depth': total['max_depth'],
        'depth_bound': max(j[2] for j in jobs),
    }
    return {'violations': violations, 'coverage': coverage, 'errors': [], 'level': 'model_checking',
            'assumptions': ['ids and tags are of one kind per history and contain no separator',
                            'no crash consistency of the pickle files is claimed or checked'],
            'bounds': {'jobs': [list(j) for j in jobs]}}


def replay(doc: Dict[str, Any]) -> List[dict]:
    from ..cli import to_tuple
    case = doc['case']
    history = to_tuple(case['history'])
    system, bad = build(case['id_kind'], history, audit_last=bool(case.get('audit_last')))
    system.close()
    return [{'clause': c, 'features': f, 'detail': d, 'case': case} for c, f, d in bad]
