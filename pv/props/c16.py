# -*- coding: utf-8 -*-
"""C16 - remote control equals direct control; each transition announced once, in order (DESIGN.md 3, C16).

Part 1 (in-step deliveries, schedule explorer): every placement of <=K control messages (RPC pause/play/kill/status and
        their broadcast variants) between loop callbacks; handler fidelity, replies, announcements, unroutability afterwards.
Part 2 (twin at quiescent delivery points): choice points only at quiescence; every execution is run twice with the same
        choices, once sending messages and once making the equivalent direct calls; all observations must be equal.
Part 3 (tolerated broadcast failures): for every transition index and each tolerated exception type raised by that
        broadcast_send, the run equals the un-faulted one.
All three for a plain in-process communicator and for the same communicator wrapped in LoopCommunicator.
"""
from __future__ import annotations

import asyncio
from typing import Any, Callable, Dict, List, Optional, Tuple

import kiwipy
import plumpy
from aio_pika.exceptions import ChannelInvalidStateError, ConnectionClosed
from plumpy import communications, futures, process_comms

from .. import ctl, programs, runner
from ..ctl import ProcessState as PS
from ..explore import Chooser, ExecResult
from ..vloop import Horizon, VLoop
from ._common import CtlProperty, describe_unit, enter_trace
from .c17 import PositionalLocal

from ._common import process_comms_text_key as _text_key  # noqa: E402

ID = 'C16'
MESSAGES = (('rpc', 'pause', 'm'), ('rpc', 'play'), ('rpc', 'kill', 't1'), ('rpc', 'status'),
            ('bc', 'pause', 'bm'), ('bc', 'play'), ('bc', 'kill', 'bt'))
# the same requests without a text (the optional argument left out / None)
NOTEXT_MESSAGES = (('rpc', 'pause', None), ('rpc', 'kill', None), ('bc', 'pause', None), ('bc', 'kill', None), ('bc', 'play'))
ASYNC_MESSAGES = (('actl', 'pause', 'am'), ('actl', 'play'), ('actl', 'kill', 'at'), ('actl', 'status'), ('rpc', 'play'))
FAULTS = {'closed': lambda: ConnectionClosed(0, 'closed'), 'channel': lambda: ChannelInvalidStateError('invalid'),
          'timeout': lambda: kiwipy.TimeoutError('timeout')}


class Logged(plumpy.Process):
    """Logs every call of the three control methods with its return value (what a remote request must boil down to)."""

    # (whatever further arguments a method may take are passed through; the text is what the statement is about)
    def pause(self, msg_text: Optional[str] = None, *args: Any, **kwargs: Any) -> Any:
        ret = super().pause(msg_text, *args, **kwargs)
        programs.ENV.handler_log.append(('pause', (msg_text,), ret, programs.ENV.direct))
        return ret

    def play(self, *args: Any, **kwargs: Any) -> Any:
        ret = super().play(*args, **kwargs)
        programs.ENV.handler_log.append(('play', (), ret, programs.ENV.direct))
        return ret

    def kill(self, msg_text: Optional[str] = None, *args: Any, **kwargs: Any) -> Any:
        ret = super().kill(msg_text, *args, **kwargs)
        programs.ENV.handler_log.append(('kill', (msg_text,), ret, programs.ENV.direct))
        return ret

    def get_status_info(self, out_status_info: dict) -> None:
        super().get_status_info(out_status_info)
        programs.ENV.status_log.append(dict(out_status_info))


class FaultyComm:
    """Delegating communicator whose i-th broadcast_send raises."""

    def __init__(self, inner: Any, fail_at: Optional[int], exc_factory: Optional[Callable[[], BaseException]]) -> None:
        self._inner = inner
        self._fail_at = fail_at
        self._factory = exc_factory
        self.sends = 0

    def broadcast_send(self, *args: Any, **kwargs: Any) -> Any:
        self.sends += 1
        if self._fail_at is not None and self.sends == self._fail_at:
            raise self._factory()  # type: ignore[misc]
        return self._inner.broadcast_send(*args, **kwargs)

    def __getattr__(self, name: str) -> Any:
        return getattr(self._inner, name)


def final_of(value: Any) -> Any:
    """What a returned value / future ends with."""
    seen = 0
    while isinstance(value, (asyncio.Future, kiwipy.Future)) and seen < 10:
        seen += 1
        if not value.done():
            return ('pending',)
        if value.cancelled():
            return ('cancelled',)
        exc = value.exception()
        if isinstance(exc, (asyncio.CancelledError, kiwipy.CancelledError)):
            return ('cancelled',)  # (a cancellation carried as the exception)
        if exc is not None:
            return ('exception', type(exc).__name__)
        value = value.result()
    return ('value', value)


class CommWorld(ctl.World):
    def __init__(self, chooser: Any, cfg: ctl.Config, unit: Any, oracle: Any) -> None:
        super().__init__(chooser, cfg, unit, oracle)
        self.wrapped = unit[2] if len(unit) > 2 else False
        self.mode = unit[3] if len(unit) > 3 else 'remote'
        self.fault = unit[4] if len(unit) > 4 else None
        base = PositionalLocal()
        self.base_comm = base
        self.announcements: List[Tuple[Any, Any]] = []
        base.add_broadcast_subscriber(self._record_broadcast, identifier='recorder')
        comm: Any = communications.LoopCommunicator(base, self.loop) if self.wrapped else base
        if self.fault is not None:
            comm = FaultyComm(comm, self.fault[0], FAULTS[self.fault[1]])
        self.comm = comm
        self.handler_log: List[tuple] = []
        self.direct = False
        self.sent: List[Dict[str, Any]] = []
        self.status_log: List[Dict[str, Any]] = []

    def _record_broadcast(self, _comm: Any, body: Any, sender: Any, subject: Any, correlation_id: Any) -> None:
        if isinstance(subject, str) and subject.startswith('state_changed'):
            self.announcements.append((sender, subject))

    def ctor_kwargs(self) -> Dict[str, Any]:
        return {'communicator': self.comm}

    def logged_call(self, proc: Any, op: str, args: tuple, origin: str = 'env') -> dict:
        self.direct = True
        try:
            return super().logged_call(proc, op, args, origin)
        finally:
            self.direct = False

    def _op_thunk(self, op: tuple, origin: str = 'env') -> Callable[[], None]:
        if op[0] not in ('rpc', 'bc', 'actl'):
            return super()._op_thunk(op, origin)

        def run() -> None:
            self.ops_issued += 1
            self.deliver(op)

        return run

    def settle(self, final: bool = False) -> None:
        if final or not self.loop.has_ready():
            for rec in self.sent:
                if rec['live_when_settled'] is None:
                    rec['live_when_settled'] = self.proc is not None and not self.proc.has_terminated()

    def options(self) -> List[Tuple[Any, str, Callable[[], None]]]:
        self.settle()
        return super().options()

    def deliver(self, op: tuple) -> Dict[str, Any]:
        proc = self.proc
        rec: Dict[str, Any] = {'op': op, 'live': not proc.has_terminated(), 'quiescent': not self.loop.has_ready(),
                               'reply': None, 'raised': None, 'n_handler': len(self.handler_log)}
        rec['n_status'] = sum(1 for r in self.sent if r['op'][1] == 'status' and r['raised'] is None)  # FIFO: i-th request, i-th report
        rec['live_when_settled'] = None  # whether the process is still live at the first quiescent point after the send
        self.sent.append(rec)
        kind, intent = op[0], op[1]
        text = op[2] if len(op) > 2 else None
        if self.mode == 'direct':
            # the equivalent direct call
            if intent == 'status':
                info: Dict[str, Any] = {}
                proc.get_status_info(info)
                rec['reply'] = info
            else:
                call = self.logged_call(proc, intent, (text,) if intent != 'play' else ())
                rec['reply'] = call['obj'] if call['raised'] is None else None
                rec['raised'] = call['raised']
                if kind == 'bc':
                    rec['reply'] = None
            return rec
        try:
            if kind == 'actl':
                # the coroutine based controller: the reply is the task running its coroutine
                controller = process_comms.RemoteProcessController(self.comm)
                coro = {'pause': lambda: controller.pause_process('p0', text), 'play': lambda: controller.play_process('p0'),
                        'kill': lambda: controller.kill_process('p0', text), 'status': lambda: controller.get_status('p0')}[intent]()
                rec['reply'] = self.loop.create_task(coro)
            elif kind == 'rpc':
                builder = getattr(process_comms.MessageBuilder, intent)
                msg = builder(text) if intent in ('pause', 'kill') else builder()  # (play and status carry no text)
                rec['reply'] = futures.unwrap_kiwi_future(self.comm.rpc_send('p0', msg))
            else:
                controller = process_comms.RemoteProcessThreadController(self.comm)
                if intent == 'pause':
                    controller.pause_all(text)
                elif intent == 'play':
                    controller.play_all()
                else:
                    controller.kill_all(text)
        except Exception as exc:  # noqa: BLE001
            rec['raised'] = exc
        return rec


def is_subsequence(small: List[Any], big: List[Any]) -> bool:
    it = iter(big)
    return all(any(x == y for y in it) for x in small)


def observations(w: CommWorld) -> Dict[str, Any]:
    proc = w.proc
    state = proc.state
    if state == PS.FINISHED:
        outcome: Any = ('FINISHED', repr(proc.result()), proc.successful())
    elif state == PS.KILLED:
        msg = proc.killed_msg()
        outcome = ('KILLED', msg.get(_text_key()) if isinstance(msg, dict) else msg)
    elif state == PS.EXCEPTED:
        outcome = ('EXCEPTED', type(proc.exception()).__name__)
    else:
        outcome = ('LIVE', str(state), proc.paused)
    replies = []
    for rec in w.sent:
        if rec['op'][0] in ('rpc', 'actl'):
            final = final_of(rec['reply']) if rec['raised'] is None else ('raised', type(rec['raised']).__name__)
            if final[0] == 'value' and isinstance(final[1], dict):
                final = ('value', {k: v for k, v in final[1].items() if k != 'ctime'})  # wall clock of two separate runs
            replies.append((rec['op'], final))
    return {'entered': list(w.entered), 'trace': enter_trace(w), 'outputs': repr(sorted(proc.outputs.items())),
            'outcome': outcome, 'replies': replies, 'announcements': list(w.announcements), 'status': proc.status,
            'handler_calls': [(h[0], h[1], final_of(h[2])) for h in w.handler_log]}


class Oracle:
    """Part 1: handler fidelity, replies, announcements, unroutability."""

    def __init__(self, unit: Any) -> None:
        self.unit = unit

    def sample(self, w: Any) -> None:
        pass

    def finish_capped(self, w: Any) -> None:
        w.violate('livelock', {}, 'tick horizon exceeded')

    def finish(self, w: CommWorld) -> None:
        proc = w.proc
        w.drain()
        feats = {'wrapped': w.wrapped}
        # (a) every delivered control message became exactly one call of the matching method with the matching arguments
        w.settle(final=True)
        want_calls = []
        optional: List[int] = []
        has_async = any(rec['op'][0] == 'actl' for rec in w.sent)
        for rec in w.sent:
            if rec['op'][0] == 'actl':
                # the coroutine sends its message when its task gets to run; if the process is gone by then the send is
                # refused (unroutable) and there is nothing to handle
                reply = rec['reply']
                if reply is not None and reply.done() and not reply.cancelled() and \
                        isinstance(reply.exception(), kiwipy.UnroutableError):
                    rec['raised'] = reply.exception()
                    rec['undelivered'] = True
            if rec['raised'] is not None or rec['op'][1] == 'status':
                continue
            if rec['op'][0] == 'bc' and not rec['live']:
                continue
            op = rec['op']
            want_calls.append((op[1], (op[2],) if op[1] != 'play' else ()))
            # a broadcast that was sent to a live process which terminated before the message got its turn: "a terminated
            # process no longer receives messages" - handling it and dropping it are both fine
            if op[0] == 'bc' and rec['live_when_settled'] is False:
                optional.append(len(want_calls) - 1)
        got_calls = [(h[0], h[1]) for h in w.handler_log if not h[3]]
        kinds_sent = {r['op'][0] for r in w.sent if r['raised'] is None and r['op'][1] != 'status'}
        mixed = len(kinds_sent & {'rpc', 'bc'}) == 2
        if has_async or mixed:
            # tasks of the coroutine controller and plain sends interleave, and RPCs and broadcasts travel on different
            # queues (in which order a broadcast and an RPC sent back to back are handled is not laid down): multisets
            import collections
            mandatory_ms = collections.Counter(repr(c) for i, c in enumerate(want_calls) if i not in optional)
            want_ms, got_ms = collections.Counter(map(repr, want_calls)), collections.Counter(map(repr, got_calls))
            if optional and not (mandatory_ms - got_ms) and not (got_ms - want_ms):
                got_calls = list(want_calls)  # (only broadcasts that were overtaken by the termination are missing)
            want_calls, got_calls = sorted(want_calls, key=repr), sorted(got_calls, key=repr)
        if optional and not (has_async or mixed) and got_calls != want_calls:
            mandatory = [c for i, c in enumerate(want_calls) if i not in optional]
            if not (is_subsequence(mandatory, got_calls) and is_subsequence(got_calls, want_calls)):
                w.violate('a:handler-calls-differ', dict(feats, n_want=len(want_calls), n_got=len(got_calls)),
                          {'want': want_calls, 'got': got_calls, 'optional': optional})
        elif got_calls != want_calls:
            w.violate('a:handler-calls-differ', dict(feats, n_want=len(want_calls), n_got=len(got_calls)),
                      {'want': want_calls, 'got': got_calls})
        elif not (has_async or mixed):
            # the reply ends with what the handler's return value ends with
            remote_handlers = [h for h in w.handler_log if not h[3]]
            k = 0
            for rec in w.sent:
                if rec['raised'] is not None or rec['op'][1] == 'status' or (rec['op'][0] == 'bc' and not rec['live']):
                    continue
                handler = remote_handlers[k]
                k += 1
                if rec['op'][0] not in ('rpc', 'actl'):
                    continue
                got, want = final_of(rec['reply']), final_of(handler[2])
                if got != want:
                    w.violate('a:reply-differs-from-handler-result', dict(feats, intent=rec['op'][1], want=str(want), got=str(got)),
                              {'reply': got, 'handler_returned': want})
        if has_async or mixed:
            # match replies and handler results per intent, in order
            for intent in ('pause', 'play', 'kill'):
                results = [final_of(h[2]) for h in w.handler_log if not h[3] and h[0] == intent]
                replies = [final_of(r['reply']) for r in w.sent if r['op'][1] == intent and r['raised'] is None
                           and r['op'][0] in ('rpc', 'actl')]
                import collections
                missing = collections.Counter(map(repr, replies)) - collections.Counter(map(repr, results))
                surplus = collections.Counter(map(repr, results)) - collections.Counter(map(repr, replies))
                n_bc = sum(1 for r in w.sent if r['op'][0] == 'bc' and r['op'][1] == intent and r['raised'] is None)
                # (every reply is what one handler call returned; handler calls beyond that belong to broadcasts)
                if missing or sum(surplus.values()) > n_bc:
                    w.violate('a:reply-differs-from-handler-result', dict(feats, intent=intent, controller='async'),
                              {'replies': replies, 'handler_returned': results})
        for rec in w.sent:
            if rec['op'][1] == 'status' and rec['raised'] is None and rec['live'] and not has_async:
                got = final_of(rec['reply'])
                # the reply is exactly what the process reported about itself when the request was handled
                # (the process may report about itself on other occasions too: the reply is one of its reports)
                handled = w.status_log[rec['n_status']] if rec['n_status'] < len(w.status_log) else None
                if got != ('value', handled) and not any(got == ('value', report) for report in w.status_log):
                    w.violate('a:status-reply', feats, {'got': got, 'handler_reported': handled})
            if rec['live'] and rec['raised'] is not None and not rec.get('undelivered'):
                w.violate('a:send-to-live-process-raised', dict(feats, exc=type(rec['raised']).__name__), repr(rec['raised']))
        # (c) every transition announced exactly once, in order, by the process id
        want_ann = [('p0', f'state_changed.{frm.value if frm is not None else None}.{to.value}') for frm, to in w.entered]
        if w.announcements != want_ann:
            w.violate('c:announcements', feats, {'got': w.announcements, 'want': want_ann})
        # (e) a terminated process no longer receives messages
        if proc.has_terminated():
            n = len(w.handler_log)
            try:
                reply = w.comm.rpc_send('p0', process_comms.MessageBuilder.play())
                w.drain()
                w.violate('e:rpc-routable-after-termination', feats, repr(final_of(reply)))
            except kiwipy.UnroutableError:
                pass
            except Exception as exc:  # noqa: BLE001
                w.violate('e:rpc-after-termination-raises-other', dict(feats, exc=type(exc).__name__), repr(exc))
            process_comms.RemoteProcessThreadController(w.comm).kill_all('late')
            w.drain()
            if len(w.handler_log) != n:
                w.violate('e:broadcast-handled-after-termination', feats, w.handler_log[n:])
            # ... nor does the same terminated process when it is recreated from a checkpoint with the communicator
            from plumpy import persistence
            try:
                proc.remove_process_listener(w.listener)  # (listeners are saved with the process; the harness's cannot be)
                loaded = persistence.Bundle(proc).unbundle(persistence.LoadSaveContext(loop=w.loop, communicator=w.comm))
            except Exception as exc:  # noqa: BLE001
                w.violate('e:recreating-terminated-process-raised', dict(feats, exc=type(exc).__name__), repr(exc))
                loaded = None
            if loaded is not None:
                w.drain()
                n = len(w.handler_log)
                try:
                    reply = w.comm.rpc_send('p0', process_comms.MessageBuilder.play())
                    w.drain()
                    w.violate('e:rpc-routable-after-termination', dict(feats, recreated=True), repr(final_of(reply)))
                except kiwipy.UnroutableError:
                    pass
                process_comms.RemoteProcessThreadController(w.comm).pause_all('late')
                w.drain()
                if len(w.handler_log) != n:
                    w.violate('e:broadcast-handled-after-termination', dict(feats, recreated=True), w.handler_log[n:])
        w.result.nontrivial = any(not r['quiescent'] for r in w.sent)
        w.result.outcome = (str(proc.state), tuple(w.announcements), tuple((r['op'], str(final_of(r['reply']))) for r in w.sent))
        w.result.sample = {'program': programs.describe(w.program), 'wrapped': w.wrapped,
                           'choices': [repr(x) for x in w.chooser.labels], 'end': str(proc.state)}


def cfg_for(unit: Any) -> ctl.Config:
    tag = unit[5] if len(unit) > 5 else None
    alphabet = {'async': ASYNC_MESSAGES, 'notext': NOTEXT_MESSAGES}.get(tag, MESSAGES)
    return ctl.Config(alphabet=alphabet, closing=('gates', 'play', 'resume'), resume_default=('dflt',))


def cls_for(unit: Any) -> type:
    return programs.make_class(unit[0], Logged)


PROP = CtlProperty(ID, Oracle, cfg_for, cls_for=cls_for, world_cls=CommWorld)


def factory() -> CtlProperty:
    return PROP


# ---- part 2: twins at quiescent delivery points ---------------------------------------------------------------------------

class QuiescentWorld(CommWorld):
    """Choice points only at quiescence: after every choice the loop is drained."""

    def options(self) -> List[Tuple[Any, str, Callable[[], None]]]:
        if self.loop.has_ready():
            return [(('tick',), '', self.loop.tick)]
        return super().options()


class TwinProp:
    def make_run(self, unit: Any) -> Any:
        program, script, wrapped = unit[:3]
        tag = unit[3] if len(unit) > 3 else None
        remote_run = ctl.make_runner(cfg_for, NullOracle, cls_for=cls_for, world_cls=QuiescentWorld)((program, script, wrapped, 'remote', None, tag))
        direct_run = ctl.make_runner(cfg_for, NullOracle, cls_for=cls_for, world_cls=QuiescentWorld)((program, script, wrapped, 'direct', None, tag))

        def run(chooser: Chooser) -> ExecResult:
            res = remote_run(chooser)
            remote_obs = res.extra_obs  # type: ignore[attr-defined]
            # the twin: same decisions at the (quiescent) choice points, ticks in between are forced anyway
            decisions = [(label, c) for (c, opts), label in zip(chooser.log, chooser.labels) if label != ('tick',)]
            twin = ReplayChooser([label for label, _ in decisions])
            res2 = direct_run(twin)
            direct_obs = res2.extra_obs  # type: ignore[attr-defined]
            if twin.diverged:
                res.violations.append({'clause': 'b:twin-diverges', 'features': {'wrapped': wrapped},
                                       'detail': {'why': twin.diverged}})
            else:
                for key in ('entered', 'trace', 'outputs', 'outcome', 'status', 'replies', 'announcements'):
                    if remote_obs[key] != direct_obs[key]:
                        res.violations.append({'clause': f'b:remote-differs-from-direct:{key}', 'features': {'wrapped': wrapped},
                                               'detail': {'remote': remote_obs[key], 'direct': direct_obs[key]}})
                        break
            res.transitions += res2.transitions
            return res

        return run


class ReplayChooser(Chooser):
    """Chooses by label: ticks when a tick is offered alone, otherwise the next recorded decision."""

    def __init__(self, labels: List[Any]) -> None:
        super().__init__(())
        self.wanted = list(labels)
        self.diverged: Optional[str] = None

    def choose(self, options: List[Tuple[Any, str]]) -> int:  # type: ignore[override]
        labels = [o[0] for o in options]
        if labels == [('tick',)]:
            c = 0
        elif self.wanted and self.wanted[0] in labels:
            c = labels.index(self.wanted.pop(0))
        else:
            if self.wanted:
                self.diverged = f'wanted {self.wanted[0]!r}, offered {labels!r}'
            c = 0
        self.log.append((c, options))
        return c


class NullOracle:
    def __init__(self, unit: Any) -> None:
        pass

    def sample(self, w: Any) -> None:
        pass

    def finish(self, w: Any) -> None:
        w.drain()
        w.result.extra_obs = observations(w)
        w.result.nontrivial = bool(w.sent)
        w.result.outcome = repr(w.result.extra_obs['outcome']) + repr(w.result.extra_obs['replies'])

    finish_capped = finish


def twin_factory() -> TwinProp:
    return TwinProp()


# ---- part 3: tolerated broadcast failures ------------------------------------------------------------------------------------

def check_broadcast_faults(progs: List[tuple]) -> Dict[str, Any]:
    out: Dict[str, Any] = {'n': 0, 'violations': [], 'nontrivial': 0}
    for program in progs:
        for wrapped in (False, True):
            base_run = ctl.make_runner(cfg_for, NullOracle, cls_for=cls_for, world_cls=CommWorld)((program, None, wrapped, 'remote'))
            ref = base_run(Chooser(())).extra_obs  # type: ignore[attr-defined]
            n_transitions = len(ref['entered'])
            for i in range(1, n_transitions + 1):
                for name in FAULTS:
                    out['n'] += 1
                    out['nontrivial'] += 1
                    run = ctl.make_runner(cfg_for, NullOracle, cls_for=cls_for, world_cls=CommWorld)(
                        (program, None, wrapped, 'remote', (i, name)))
                    case = {'part': 3, 'program': program, 'wrapped': wrapped, 'fail_at': i, 'fault': name}
                    try:
                        got = run(Chooser(())).extra_obs  # type: ignore[attr-defined]
                    except Exception as exc:  # noqa: BLE001 - e.g. the constructor letting the failure through
                        out['violations'].append({'clause': 'd:broadcast-failure-escapes', 'features': {'fault': name, 'at': 'constructor' if i == 1 else 'later'},
                                                  'detail': repr(exc), 'case': case})
                        continue
                    want_ann = ref['announcements'][:i - 1] + ref['announcements'][i:]
                    for key in ('entered', 'trace', 'outputs', 'outcome'):
                        if got[key] != ref[key]:
                            out['violations'].append({'clause': f'd:broadcast-failure-disturbs:{key}', 'features': {'fault': name},
                                                      'detail': {'got': got[key], 'want': ref[key]}, 'case': case})
                            break
                    else:
                        # (the failed announcement stays lost, or - a retry - is made after all: both leave the others alone)
                        if got['announcements'] != want_ann and got['announcements'] != ref['announcements']:
                            out['violations'].append({'clause': 'd:other-announcements-changed', 'features': {'fault': name},
                                                      'detail': {'got': got['announcements'], 'want': want_ann}, 'case': case})
    return out


def units_for(tier: str) -> List[Any]:
    progs = list(programs.linear_programs(2, ('S', 'Y1'), ('cont', 'wait'), ('ret', 'raise')))
    progs += list(programs.linear_programs(1, ('G',), (), ('ret', 'raise')))
    return progs


def larger_programs() -> List[Any]:
    """Thorough tier only: two-step programs with gates, three-step programs."""
    base = set(units_for('quick'))
    progs = [p for p in programs.linear_programs(2, ('S', 'Y1', 'G'), ('cont', 'wait'), ('ret', 'raise')) if p not in base]
    progs += list(programs.linear_programs(3, ('S', 'Y1'), ('cont', 'wait'), ('ret',), min_len=3))
    return progs


def both_alphabets(progs: List[Any]) -> List[Any]:
    return [(p, None, wrapped) for p in progs for wrapped in (False, True)] + \
           [(p, None, wrapped, 'remote', None, 'notext') for p in progs for wrapped in (False, True)]


PART1_RULE = ('(1) every placement of <=K control messages from ' + repr(MESSAGES) + ' and, as separate units, from the '
              'text-less ' + repr(NOTEXT_MESSAGES) + ' (RPC through rpc_send, broadcasts through '
              'RemoteProcessThreadController.*_all) and <=J early gate completions between any two loop callbacks, for a '
              'plain in-process communicator and for the same wrapped in LoopCommunicator: handler fidelity, replies, '
              'announcements, unroutability after termination; non-trivial = a message sent while the ready queue was not empty')
PART1_ASSUMPTIONS = ['the communicator thread is modelled by loop callbacks landing at arbitrary queue positions',
                     'an in-process communicator that calls broadcast subscribers positionally, as the RabbitMQ one does']


def describe_part1(u: Any) -> Dict[str, Any]:
    return {'program': programs.describe(u[0]), 'wrapped': u[2], 'alphabet': u[5] if len(u) > 5 else 'text'}


def run_check(tier: str, seed: int, workers: Any) -> Dict[str, Any]:
    progs = units_for(tier)
    budget = {'K': 2, 'J': 1} if tier == 'quick' else {'K': 3, 'J': 1}
    part1 = runner.run_explorer(factory, (), both_alphabets(progs), budget, seed, workers, rule=PART1_RULE,
                                assumptions=PART1_ASSUMPTIONS, bounds=dict(budget, program_len=2), describe=describe_part1)
    parts = [part1]
    if tier != 'quick':
        parts.append(runner.run_explorer(
            factory, (), both_alphabets(larger_programs()), {'K': 2, 'J': 1}, seed, workers,
            rule='(1, larger programs) the same for two-step programs with gates and three-step programs, K=2',
            assumptions=[], bounds={'K': 2, 'J': 1, 'program_len': 3}, describe=describe_part1))
    small = list(programs.linear_programs(2, ('S', 'Y1', 'G'), ('cont', 'wait'), ('ret',)))
    part2 = runner.run_explorer(
        twin_factory, (), [(p, None, wrapped) for p in small for wrapped in (False, True)]
        + [(p, None, wrapped, 'notext') for p in small for wrapped in (False, True)], {'K': 3 if tier == 'quick' else 4, 'J': 1},
        seed, workers,
        rule='(2) choice points only at quiescence, <=K messages: every execution is repeated with the same decisions making '
             'the equivalent direct calls instead of sending messages; state sequence, executed steps, outputs, outcome, '
             'status, replies and announcements must be equal',
        assumptions=[], bounds={'K': 3 if tier == 'quick' else 4},
        describe=lambda u: {'program': programs.describe(u[0]), 'wrapped': u[2], 'alphabet': u[3] if len(u) > 3 else 'text'})
    tiny = list(programs.linear_programs(2, ('S', 'Y1'), ('cont', 'wait'), ('ret',)))
    part1b = runner.run_explorer(
        factory, (), [(p, None, wrapped, 'remote', None, 'async') for p in tiny for wrapped in (False, True)], {'K': 2, 'J': 0},
        seed, workers,
        rule='(1b) the same with the coroutine based RemoteProcessController (pause_process / play_process / kill_process / '
             'get_status awaited in loop tasks) mixed with a plain rpc play', assumptions=[], bounds={'K': 2},
        describe=lambda u: {'program': programs.describe(u[0]), 'wrapped': u[2], 'controller': 'async'})
    out = runner.merge(parts + [part1b, part2])
    from ..explore import guarded_part
    part3 = guarded_part(lambda: check_broadcast_faults(small), 300, {'part': 3})
    part3.setdefault('n', 0)
    out['coverage']['evaluations'] += part3['n']
    out['coverage']['traces_validated_against_impl'] += part3['n']
    out['coverage']['transitions'] += part3['n']
    out['coverage']['broadcast_fault_runs'] = part3['n']
    out['coverage']['rule'] += ' || (3) the default run of every small program with the i-th broadcast_send raising ' \
                               'ConnectionClosed / ChannelInvalidStateError / kiwipy.TimeoutError, for every i'
    best: Dict[Any, Any] = {}
    for v in part3['violations']:
        best.setdefault((v['clause'], repr(sorted(v['features'].items()))), v)
    out['violations'].extend(best.values())
    return out


def replay(doc: Dict[str, Any]) -> List[dict]:
    from ..cli import to_tuple
    case = doc.get('case')
    if case and case.get('part') == 3:
        return check_broadcast_faults([to_tuple(case['program'])])['violations']
    unit = to_tuple(doc['unit'])
    clause = doc.get('clause') or ''
    prop: Any = twin_factory() if clause.startswith('b:') else PROP
    return prop.make_run(unit)(Chooser(tuple(doc['choices']))).violations
