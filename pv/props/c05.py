# -*- coding: utf-8 -*-
"""C05 - pause/play is transparent: nothing runs while paused, no step lost or repeated (DESIGN.md 3, C05)."""
from __future__ import annotations

from typing import Any, Dict, List

from .. import ctl, programs, runner
from ..ctl import ProcessState
from ..explore import Chooser
from ._common import CtlProperty, default_sample, describe_unit, enter_trace, features

ID = 'C05'
ALPHABET = (('pause',), ('pause', 'm'), ('play',), ('resume', 'dflt'), ('unask',))


def outcome_of(w: ctl.World) -> tuple:
    proc = w.proc
    state = proc.state
    if state == ProcessState.FINISHED:
        out: Any = ('FINISHED', repr(proc.result()), proc.successful())
    elif state == ProcessState.EXCEPTED:
        exc = proc.exception()
        out = ('EXCEPTED', type(exc).__name__, repr(getattr(exc, 'args', None)))
    elif state == ProcessState.KILLED:
        out = ('KILLED', repr(proc.killed_msg()))
    else:
        out = ('LIVE', str(state), proc.paused)
    return (tuple(enter_trace(w)), repr(sorted(proc.outputs.items())), out)


class RefOracle:
    def __init__(self, unit: Any) -> None:
        pass

    def sample(self, w: ctl.World) -> None:
        pass

    def finish(self, w: ctl.World) -> None:
        w.result.outcome = outcome_of(w)

    finish_capped = finish


_REF: Dict[Any, Any] = {}


def strip(program: tuple) -> tuple:
    return tuple((k, tuple(a for a in acts if a[1] not in ('pause', 'play')), t) for k, acts, t in program)


from ._common import is_wc_unit  # noqa: E402


def reference(unit: Any) -> Any:
    if is_wc_unit(unit):
        key = unit[0]
        if key not in _REF:
            from .. import wcharness
            run = ctl.make_runner(wc_cfg, RefOracle, cls_for=wcharness.cls_for, world_cls=wcharness.WcWorld)((key, None))
            _REF[key] = run(Chooser(())).outcome
        return _REF[key]
    key = strip(unit[0])
    if key not in _REF:
        run = ctl.make_runner(cfg_for, RefOracle)((key, None))
        _REF[key] = run(Chooser(())).outcome
    return _REF[key]


class Oracle:
    def __init__(self, unit: Any) -> None:
        self.unit = unit

    def sample(self, w: ctl.World) -> None:
        proc = w.proc
        if proc.paused and not proc.has_terminated():
            # (c) paused only if a pause was requested after the last play
            for rec in reversed(w.calls):
                if rec['op'] == 'pause':
                    return
                if rec['op'] == 'play':
                    break
            if not getattr(self, '_reported_c', False):
                self._reported_c = True
                w.violate('c:paused-without-request', features(w), 'process reports paused although the last request was play')

    def finish_capped(self, w: ctl.World) -> None:
        w.violate('livelock', features(w), 'tick horizon exceeded')

    def finish(self, w: ctl.World) -> None:
        proc = w.proc
        if proc.has_terminated() and proc.paused:
            # a pause requested while the last step was in flight took effect together with the final transition;
            # "each run is completed by a final play": play() always leaves the process un-paused
            rec = w.call('play', origin='closing')
            if rec['raised'] is not None or proc.paused:  # (what play() returns is not laid down)
                w.violate('c:play-not-playing', features(w, rec, ret=str(rec['ret']), terminated=True),
                          f"play() on the terminated but still paused process returned {rec['ret']}, paused afterwards={proc.paused}")
            elif 'status_expected' in rec and proc.state == ProcessState.FINISHED \
                    and rec.get('status_after') not in (rec['status_expected'], rec.get('status_alt', rec['status_expected'])):
                w.violate('e:status-not-restored', features(w, rec, terminated=True),
                          f"status {rec.get('status_after')!r} after play, {rec['status_expected']!r} before pause")
        any_pause = False
        for rec in w.calls:
            if rec['op'] in ('pause', 'play'):
                any_pause = any_pause or rec['op'] == 'pause'
                # (a) pause()/play() never raise on a live process
                if rec['live'] and rec['raised'] is not None:
                    w.violate(f"a:{rec['op']}-raises", features(w, rec, raised=rec['raised']), repr(rec['raised']))
                # (c) play() returns True and leaves the process un-paused
                if rec['op'] == 'play' and rec['live'] and rec['raised'] is None:
                    if rec.get('paused_after') and 'pause' not in rec['nested']:  # (what play() returns is not laid down)
                        w.violate('c:play-not-playing', features(w, rec, ret=str(rec['ret'])),
                                  f"play() returned {rec['ret']}, paused afterwards={rec.get('paused_after')}")
                    if rec['paused'] and 'status_expected' in rec and 'pause' not in rec['nested'] \
                            and rec.get('status_after') not in (rec['status_expected'], rec.get('status_alt', rec['status_expected'])):
                        w.violate('e:status-not-restored', features(w, rec),
                                  f"status {rec.get('status_after')!r} after play, {rec['status_expected']!r} before pause")
        # (b) nothing of the user's program runs while the process reports paused
        for t in w.trace:
            if t[4] and t[3] in ('enter', 'resumed'):
                w.violate('b:ran-while-paused', features(w, phase=t[3]), f'{t[0]} {t[3]} while paused')
                break
        # (f) "a pause takes effect at the next step boundary": no step is entered while a pause request stands (the last
        #     accepted request among pause / play / withdrawal is a pause).  A pause asked from a listener callback during a
        #     transition arrives while the state being entered is the current step: that one may still start.
        for j, t in enumerate(w.trace):
            if t[3] != 'enter':
                continue
            last = None
            for rec in w.calls:
                if rec['ntrace'] > j:
                    break
                if rec['op'] in ('pause', 'play') and rec['raised'] is None and rec['live']:
                    last = rec
                elif rec['op'] == 'unask' and rec.get('target') == 'pause':
                    last = None
            if last is not None and last['op'] == 'pause' and not last.get('withdrawn') and last['ret'] != ('value', False) \
                    and not last['origin'].startswith('listener') and 'play' not in last['nested']:
                w.violate('f:pause-ignored', features(w, last), f'{t[0]} entered although the last request was a pause')
                break
        # (d) same steps, outputs and outcome as the uninterrupted run
        ref = reference(self.unit)
        mine = outcome_of(w)
        if mine != ref:
            what = 'trace' if mine[0] != ref[0] else ('outputs' if mine[1] != ref[1] else 'outcome')
            w.violate(f'd:differs-{what}', features(w, end=mine[2][0]), {'got': mine, 'reference': ref})
        w.result.nontrivial = any_pause and any(r['op'] == 'pause' and r['state'] != ProcessState.CREATED for r in w.calls)
        w.result.outcome = (mine, tuple((r['op'], str(r['ret'])) for r in w.calls))
        w.result.sample = default_sample(w)


def cfg_for(unit: Any) -> ctl.Config:
    return ctl.Config(alphabet=ALPHABET, closing=('gates', 'play', 'resume_if_none'), resume_default=('dflt',))


WC_ALPHABET = (('pause',), ('pause', 'm'), ('play',), ('unask',))


def wc_cfg(unit: Any) -> ctl.Config:
    return ctl.Config(alphabet=WC_ALPHABET, closing=('gates', 'play'))


PROP = CtlProperty(ID, Oracle, cfg_for)


def wc_factory() -> CtlProperty:
    from .. import wcharness
    return CtlProperty(ID, Oracle, wc_cfg, cls_for=wcharness.cls_for, world_cls=wcharness.WcWorld)


def wc_units(tier: str) -> List[Any]:
    import itertools
    units: List[Any] = []
    for n in (1, 2):
        for items in itertools.product((('gate', 'ok'), ('child', 'ok')), repeat=n):
            for how in ('return', 'call'):
                units.append(((items, how, True), None))
    return units


def factory() -> CtlProperty:
    return PROP


def burst_factory() -> CtlProperty:
    return PROP.as_burst()


LISTENER_SCRIPTS = tuple((ev, n, op) for ev in ('running', 'waiting', 'paused', 'played')
                         for n in (1, 2) for op in (('pause',), ('play',)))


def units_for(tier: str) -> List[Any]:
    kinds = ('S', 'Y1', 'G')
    base = list(programs.linear_programs(2, kinds, ('cont', 'wait'), ('ret', 'raise', 'unsucc')))
    base3 = list(programs.linear_programs(3, kinds, ('cont', 'wait'), ('ret',), min_len=3))
    units: List[Any] = [(p, None) for p in base + base3]
    small = list(programs.linear_programs(2, ('S', 'Y1'), ('cont', 'wait'), ('ret',)))
    for p in small:
        for script in LISTENER_SCRIPTS:
            units.append((p, script))
    units += [(p, None) for p in programs.with_actions(small, ('status', 'pause', 'play', 'out'))]
    if tier == 'thorough':
        units += [(p, None) for p in programs.linear_programs(2, ('Y2',), ('cont', 'wait'), ('ret',))]
    return units


def run_check(tier: str, seed: int, workers: Any) -> Dict[str, Any]:
    part1 = run_processes(tier, seed, workers)
    budget = {'K': 2, 'J': 2} if tier == 'quick' else {'K': 3, 'J': 2}
    part2 = runner.run_explorer(
        wc_factory, (), wc_units(tier), budget, seed, workers,
        rule='work chains (s1 registers 1-2 loop futures / launched children, s2 re-assigns a key, s3) under every placement '
             'of <=K requests from ' + repr(WC_ALPHABET) + ' and <=J early completions, closed by play; same oracle',
        assumptions=[], bounds=dict(budget, n_items=2), describe=lambda u: {'items': u[0][0], 'how': u[0][1]})
    for v in part2['violations']:
        v['features'] = dict(v.get('features', {}), part='workchain')
    # deeper on the smallest programs: four requests (e.g. pause, play, pause, play inside one wait)
    tiny = [((('S', (), 'wait'), ('S', (), 'ret')), None), ((('Y1', (), 'ret'),), None), ((('S', (), 'ret'),), None)]
    deep = {'K': 4, 'J': 0} if tier == 'quick' else {'K': 6, 'J': 0}
    part3 = runner.run_explorer(
        factory, (), tiny, deep, seed, workers,
        rule=f'the three smallest programs with <= {deep["K"]} requests', assumptions=[], bounds=deep, describe=describe_unit)
    # bursts: long sequences at few places - up to N requests right behind one another wherever the loop is quiescent
    nb = 4 if tier == 'quick' else 5
    burst_units = [((('S', (), 'wait'), ('S', (), 'ret')), None), ((('Y1', (), 'wait'), ('S', (), 'ret')), None)][:1 if tier == 'quick' else 2]
    part_b = runner.run_explorer(
        burst_factory, (), burst_units, {'K': nb}, seed, workers, split_depth=3,
        rule=f'bursts: every sequence of <= {nb} requests from ' + repr(ALPHABET) + ' issued right behind one another wherever the '
             'loop is quiescent, on the smallest waiting programs', assumptions=[], bounds={'K': nb, 'placements': 'quiescent points only'},
        describe=describe_unit)
    for v in part_b['violations']:
        v['features'] = dict(v.get('features', {}), part='burst')
    out = runner.merge([part1, part2, part3, part_b])
    if tier != 'quick':
        from ._common import add_sequel, sequel_part
        from ..explore import guarded_part as _gp
        seq = _gp(lambda: sequel_part('pv.props.c05', 'burst_factory', ((('S', (), 'wait'), ('S', (), 'ret')), None), 3, 1, workers), 900, {'part': 'sequel'})
        add_sequel(out, seq, 'every burst history of <=3 requests of a first process followed, in the same fresh interpreter, by '
                             'every burst history of <=2 requests of a second process of the class: observed exactly as after no '
                             'earlier process')
    from ..explore import guarded_part
    part4 = guarded_part(check_restored_pause, 240, {'part': 'restored-pause'})
    out['violations'].extend(part4['violations'])
    out['coverage']['evaluations'] += part4['n']
    out['coverage']['transitions'] += part4['n']
    out['coverage']['traces_validated_against_impl'] += part4['n']
    out['coverage']['rule'] += (' || the status programs with a pause before every tick, the paused process checkpointed and '
                                'recreated, then played: the status after play equals that of the same run without the restore')
    return out


def run_processes(tier: str, seed: int, workers: Any) -> Dict[str, Any]:
    budget = {'K': 2, 'J': 1} if tier == 'quick' else {'K': 3, 'J': 1}
    return runner.run_explorer(
        factory, (), units_for(tier), budget, seed, workers,
        rule='every placement of <=K requests from ' + repr(ALPHABET) + ' and <=J early gate completions between any two '
             'loop callbacks of every generated program (plus pause/play from listener callbacks and step bodies), each '
             'run closed by play/resume; compared with the uninterrupted run; non-trivial = a pause was requested after '
             'the process left CREATED',
        assumptions=['single event loop thread; control calls land between two loop callbacks',
                     'the same resume value is used by the interrupted and the reference run'],
        bounds={'K': budget['K'], 'J': budget['J'], 'program_len': 3}, describe=describe_unit)


def check_restored_pause() -> Dict[str, Any]:
    """The status message present before the pause is restored by play - also when the paused process was checkpointed and
    recreated in between (the pause took effect in one instance, the play is given to the next)."""
    from . import c08
    out: Dict[str, Any] = {'n': 0, 'violations': []}
    small = list(programs.linear_programs(2, ('S', 'Y1'), ('cont', 'wait'), ('ret',)))
    progs = list(programs.with_actions(small, ('status',), wheres=('pre',)))
    for program in progs:
        _, errors, ticks, _ = c08.observe_paused(program, -1, 'pickle', False)
        if errors:
            continue
        for pause_at in range(0, ticks + 1):
            out['n'] += 2
            case = {'part': 'restored-pause', 'program': program, 'pause_at': pause_at}
            try:
                ref, ref_errors, _, _ = c08.observe_paused(program, pause_at, 'pickle', False)
                got, got_errors, _, restored = c08.observe_paused(program, pause_at, 'pickle', True)
            except Exception as exc:  # noqa: BLE001
                out['violations'].append({'clause': 'restored-pause:raised', 'features': {'exc': type(exc).__name__},
                                          'detail': repr(exc), 'case': case})
                continue
            if ref_errors or got_errors or not restored:
                continue
            if got[4] != ref[4]:
                out['violations'].append({'clause': 'e:status-not-restored', 'features': {'restored_in_between': True},
                                          'detail': {'status_after_play': got[4], 'without_restore': ref[4]}, 'case': case})
    best: Dict[Any, dict] = {}
    for v in out['violations']:
        best.setdefault((v['clause'], repr(sorted(v['features'].items()))), v)
    out['violations'] = list(best.values())
    return out


def replay(doc: Dict[str, Any]) -> List[Dict[str, Any]]:
    if (doc.get('case') or {}).get('part') == 'sequel':
        from ._common import sequel_part
        return sequel_part('pv.props.c05', 'burst_factory', ((('S', (), 'wait'), ('S', (), 'ret')), None), 3, 2, 2, only=(doc['case']['first'], doc['case']['second']))['violations']
    if (doc.get('case') or {}).get('part') == 'restored-pause':
        return check_restored_pause()['violations']
    from ..cli import to_tuple
    if is_wc_unit(to_tuple(doc['unit'])):
        return wc_factory().replay(doc)
    if (doc.get('features') or {}).get('part') == 'burst':
        return burst_factory().replay(doc)
    return PROP.replay(doc)
