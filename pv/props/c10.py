# -*- coding: utf-8 -*-
"""C10 - ToContext is a barrier: the next step sees every awaited result (DESIGN.md 3, C10)."""
from __future__ import annotations

import itertools
from typing import Any, Dict, List

import plumpy

from .. import ctl, runner, wcharness
from ..ctl import ProcessState as PS
from ._common import CtlProperty, features

ID = 'C10'


class Oracle:
    def __init__(self, unit: Any) -> None:
        self.unit = unit

    def sample(self, w: Any) -> None:
        pass

    def finish_capped(self, w: Any) -> None:
        w.violate('livelock', {}, 'tick horizon exceeded')

    def finish(self, w: Any) -> None:
        proc = w.proc
        items, how, reassign = self.unit[0][:3]
        shape = self.unit[0][3] if len(self.unit[0]) > 3 else 'flat'
        failing = [i for i, (k, o) in enumerate(items) if o in ('exc', 'kill') or (o == 'cancel' and k == 'child')]
        # a plain future that gets cancelled: the statements only say that the chain must not wait for ever (C06)
        soft = [i for i, (k, o) in enumerate(items) if o == 'cancel' and k != 'child']
        names = [t[0] for t in w.trace]
        feats = {'how': how, 'shape': shape, 'n': len(items), 'kinds': sorted({k for k, _ in items}), 'outcomes': sorted({o for _, o in items}),
                 'paused_ops': sorted({r['op'] for r in w.calls if r['origin'] == 'env'})}
        w.result.nontrivial = len(w.completion_order) >= 2 and w.completion_order != sorted(
            w.completion_order, key=lambda x: x if isinstance(x, int) else x[1])
        want = wcharness.expected_values(w)
        if soft:
            if w.live():
                w.violate('cancelled-item:not-terminated', dict(feats, state=str(proc.state), paused=proc.paused),
                          f'every awaited item is done (one of them cancelled) but the chain is {proc.state} at quiescence')
            w.result.outcome = (str(proc.state), tuple(names), tuple(map(str, w.completion_order)))
            w.result.sample = {'items': list(map(list, items)), 'how': how, 'end': str(proc.state)}
            return
        if w.at_s2 is not None:
            # the barrier: at the entry of the next step every awaited item is done and in the context
            for key, (done, value) in sorted(w.at_s2.items()):
                if not done:
                    w.violate('barrier:next-step-before-completion', dict(feats, key=key), w.at_s2)
                    break
                idx = 1 if key == 'self' else int(key[1:])
                if idx in failing:
                    w.violate('barrier:next-step-after-failure', dict(feats, outcome=items[idx][1]), w.at_s2)
                    break
                if value != want[key]:
                    w.violate('barrier:context-value', dict(feats, key=key), {'got': value, 'want': want[key]})
                    break
        if failing:
            if 's2' in names:
                w.violate('failure:next-step-ran', feats, names)
            if w.live():
                w.violate('failure:not-terminated', dict(feats, state=str(proc.state), paused=proc.paused), None)
            elif proc.state != PS.EXCEPTED:
                w.violate('failure:not-excepted', dict(feats, state=str(proc.state)), None)
            else:
                exc = proc.exception()
                import asyncio
                import concurrent.futures
                # ("with that error": the item's exception, or an equal copy of it)
                ok = any(exc is e or (type(exc) is type(e) and exc.args == e.args) for e in w.item_errors.values()) or (
                    isinstance(exc, plumpy.KilledError) and any(items[i][1] in ('kill', 'cancel') for i in failing)) or (
                    isinstance(exc, (asyncio.CancelledError, concurrent.futures.CancelledError))
                    and any(items[i][1] == 'cancel' for i in failing))
                if not ok:
                    w.violate('failure:wrong-exception', dict(feats, exc=type(exc).__name__), repr(exc))
        else:
            if w.live():
                w.violate('not-terminated', dict(feats, state=str(proc.state), paused=proc.paused),
                          f'all awaited items completed but the chain is {proc.state} (paused={proc.paused}) at quiescence')
            elif proc.state != PS.FINISHED:
                w.violate('not-finished', dict(feats, state=str(proc.state)), repr(proc.exception()))
            else:
                if names.count('s2') != 1 or names.count('s3') != 1:
                    w.violate('steps-after-barrier', feats, names)
                if w.at_s3 is not None:
                    want3 = dict(want)
                    if reassign:
                        want3['k0'] = 'reassigned'
                    if w.at_s3 != want3:
                        w.violate('context-after-reassignment', dict(feats, reassign=reassign), {'got': w.at_s3, 'want': want3})
        w.result.outcome = (str(proc.state), tuple(names), tuple(map(str, w.completion_order)))
        w.result.sample = {'items': list(map(list, items)), 'how': how, 'choices': [repr(x) for x in w.chooser.labels],
                           'end': str(proc.state)}


def cfg_for(unit: Any) -> ctl.Config:
    return ctl.Config(alphabet=unit[0][3] if len(unit[0]) > 3 else (), closing=('gates', 'play'), early_gates=True)


def cfg_plain(unit: Any) -> ctl.Config:
    return ctl.Config(alphabet=(('pause',), ('play',)), closing=('gates', 'play'), early_gates=True)


PROP = CtlProperty(ID, Oracle, cfg_plain, cls_for=wcharness.cls_for, world_cls=wcharness.WcWorld)


def factory() -> CtlProperty:
    return PROP


def units_for(tier: str) -> List[Any]:
    units: List[Any] = []
    n_max = 2 if tier == 'quick' else 3
    item_kinds = [('gate', 'ok'), ('gate', 'exc'), ('child', 'ok'), ('child', 'exc'), ('child', 'kill'), ('child', 'cancel')]
    for n in range(1, n_max + 1):
        for items in itertools.product(item_kinds, repeat=n):
            if n == 3 and (sum(1 for k, _ in items if k == 'child') > 2 or ('child', 'cancel') in items):
                continue  # (three items: at most two children, and a child killed through its future only up to pairs)
            for how in ('return', 'call', 'both'):
                if how == 'both' and n == 1:
                    continue
                for reassign in (False, True):
                    if reassign and any(o != 'ok' for _, o in items):
                        continue
                    units.append(((items, how, reassign), None))
    # items that are already resolved when they are handed over (alone, and next to a pending one)
    for items in ((('done', 'ok'),), (('done', 'exc'),), (('done', 'ok'), ('done', 'ok')), (('done', 'ok'), ('gate', 'ok')),
                  (('gate', 'ok'), ('done', 'exc')), (('done', 'ok'), ('child', 'ok'))):
        for how in ('return', 'call'):
            units.append(((items, how, False), None))
    # one future / one child handed over under two keys
    for items in ((('gate', 'ok'), ('same', 'ok')), (('child', 'ok'), ('same', 'ok')), (('gate', 'ok'), ('same', 'ok'), ('gate', 'ok')),
                  (('gate', 'exc'), ('same', 'exc'))):
        for how in ('return', 'call', 'both'):
            units.append(((items, how, False), None))
    # a plain future that gets cancelled (alone, before and after another item)
    for items in ((('gate', 'cancel'),), (('gate', 'cancel'), ('gate', 'ok')), (('child', 'ok'), ('gate', 'cancel')),
                  (('done', 'cancel'),), (('done', 'cancel'), ('gate', 'ok'))):
        for how in ('return', 'call'):
            units.append(((items, how, False), None))
    # the registering step inside a loop / a branch (its return value has to travel through the nested steppers)
    for shape in ('while', 'if', 'while-if'):
        for items in ((('gate', 'ok'),), (('gate', 'exc'),), (('child', 'ok'),), (('gate', 'ok'), ('child', 'kill'))):
            for how in ('return', 'call'):
                units.append(((items, how, False, shape), None))
    return units


def run_check(tier: str, seed: int, workers: Any) -> Dict[str, Any]:
    budget = {'K': 1, 'J': 9}
    return runner.run_explorer(
        factory, (), units_for(tier), budget, seed, workers,
        rule='work chains s1,s2,s3 where s1 registers n items (loop futures completed by the environment / child processes '
             'launched from the step; outcome value, exception, killed child - by kill() or by cancelling its future -, cancelled future) by return ToContext / to_context / both; '
             'every order and placement of the completion events between loop callbacks (J unbounded within the run) x '
             '<=K pause/play requests; non-trivial = the items completed in an order other than the registration order',
        assumptions=['single event loop thread', 'K=1 pause/play is beyond the statement\'s quantifier and kept because '
                     'it exercises the same barrier code'],
        bounds=dict(budget, n_items=2 if tier == 'quick' else 3),
        describe=lambda u: {'items': u[0][0], 'how': u[0][1], 'reassign': u[0][2], 'shape': u[0][3] if len(u[0]) > 3 else 'flat'})


replay = PROP.replay
