# -*- coding: utf-8 -*-
"""C17 - launcher tasks do what they say or are rejected (DESIGN.md 3, C17).

Explicit-state BFS over histories of create / launch / continue / bogus tasks given to a real ProcessLauncher on a VLoop,
for every configuration (persister none / in-memory / pickle x default / custom counting loader x direct call / through a
LoopCommunicator with RemoteProcessThreadController); the oracle is evaluated after every task against a model that
keeps the persisted keys, the constructed pids and the steps each process ran.
"""
from __future__ import annotations

import collections
import itertools
import multiprocessing as mp
import os
import shutil
import tempfile
from typing import Any, Dict, List, Optional, Tuple

import kiwipy
import plumpy
from plumpy import communications, futures, loaders, persistence, process_comms

from .. import explore
from ..vloop import VLoop
from .c14 import SHM

ID = 'C17'
SOME_REST = '*'  # marks a stored checkpoint of which any rest of the run may be left

RAN: List[Tuple[Any, str]] = []  # (pid, step) appended by the steps of the processes below
CONSTRUCTED: List[Any] = []


class Recording(plumpy.Process):
    @classmethod
    def define(cls, spec: Any) -> None:
        super().define(spec)
        spec.inputs.dynamic = True
        spec.outputs.dynamic = True

    def __init__(self, *args: Any, **kwargs: Any) -> None:
        super().__init__(*args, **kwargs)
        CONSTRUCTED.append(self.pid)


class TwoStep(Recording):
    def run(self) -> Any:
        RAN.append((self.pid, 'run'))
        self.out('first', 1)
        return plumpy.Continue(self.second)

    def second(self) -> Any:
        RAN.append((self.pid, 'second'))
        self.out('second', 2)
        return 7


class Failing(Recording):
    def run(self) -> Any:
        RAN.append((self.pid, 'run'))
        raise ValueError('failing process')


class OneStep(Recording):
    def run(self) -> Any:
        RAN.append((self.pid, 'run'))
        self.out('only', 'x')
        return None


class LateFailing(Recording):
    """Finishes, then fails in a termination hook: the process ends EXCEPTED although its future was already resolved."""

    def run(self) -> Any:
        RAN.append((self.pid, 'run'))
        return 1

    def on_finished(self) -> None:
        super().on_finished()
        raise ValueError('failing process (late)')


CLASSES = {'two': TwoStep, 'fail': Failing, 'one': OneStep, 'late': LateFailing}
FULL_TRACE = {'two': ['run', 'second'], 'fail': ['run'], 'one': ['run'], 'late': ['run']}
FAILS = ('fail', 'late')


class CountingLoader(loaders.DefaultObjectLoader):
    """Gives every object an alias the default loader cannot resolve; counts what it is asked to load."""

    loads: List[str] = []

    def load_object(self, identifier: str) -> Any:
        CountingLoader.loads.append(identifier)
        if identifier.startswith('alias!'):
            identifier = identifier[len('alias!'):]
        return super().load_object(identifier)

    def identify_object(self, obj: Any) -> str:
        return 'alias!' + super().identify_object(obj)


class PositionalLocal(kiwipy.LocalCommunicator):
    """LocalCommunicator that calls broadcast subscribers positionally, as the RabbitMQ communicator does."""

    def fire_broadcast(self, body: Any, sender: Any = None, subject: Any = None, correlation_id: Any = None) -> bool:
        self._ensure_open()
        for subscriber in self._broadcast_subscribers.values():
            subscriber(self, body, sender, subject, correlation_id)
        return True


def alphabet(n_prev: int) -> List[tuple]:
    ops: List[tuple] = []
    for cls in ('two', 'fail'):
        for persist in (False, True):
            ops.append(('create', cls, persist))
            for nowait in (False, True):
                ops.append(('launch', cls, persist, nowait))
    ops.append(('launch', 'one', True, False))
    ops.append(('launch', 'late', False, False))
    ops.append(('create', 'late', True))
    for tag in ('early', 'late', 'missing'):
        for nowait in (False, True):
            ops.append(('continue', 'H', tag, nowait))
    ops.append(('continue', 'unknown-pid', None, False))
    for k in range(n_prev):
        ops.append(('continue-created', k, False))  # continue the process created / launched by the k-th earlier task
    ops.append(('bogus',))
    for cls in ('two', 'fail'):
        for nowait in (False, True):
            ops.append(('execute', cls, nowait))  # controller.execute_process: create (persisted) + continue
    return ops


class System:
    def __init__(self, persister_kind: str, loader_kind: str, path: str, with_context: bool = False) -> None:
        RAN.clear()
        CONSTRUCTED.clear()
        CountingLoader.loads = []
        self.path = path
        self.with_context = with_context
        self.loop = VLoop(horizon=20000)
        self.loop.install()
        self.dir: Optional[str] = None
        self.custom = loader_kind == 'custom'
        self.loader = CountingLoader() if self.custom else None
        if persister_kind == 'memory':
            # with a custom loader the stored bundles carry identifiers only that loader can resolve
            self.persister: Any = persistence.InMemoryPersister(loader=self.loader)
        elif persister_kind == 'pickle':
            self.dir = tempfile.mkdtemp(prefix='pvc17_', dir=SHM)
            self.persister = persistence.PicklePersister(self.dir)
        else:
            self.persister = None
        load_context = persistence.LoadSaveContext(loop=self.loop) if with_context else None
        self.launcher = process_comms.ProcessLauncher(loop=self.loop, persister=self.persister, loader=self.loader,
                                                      load_context=load_context)
        self.comm: Any = None
        self.controller: Any = None
        if path == 'controller':
            self.comm = communications.LoopCommunicator(PositionalLocal(), self.loop)
            self.comm.add_task_subscriber(self.launcher)
            self.controller = process_comms.RemoteProcessThreadController(self.comm)
        # model
        self.stored: Dict[Tuple[Any, Any], str] = {}  # key -> what remains to run ('run,second' ...)
        self.failing: set = set()  # stored keys whose process fails when run
        self.pids: List[Any] = []  # pid produced by the k-th task (or None)
        self.n = 0
        if self.persister is not None:
            self._prepare_h()

    def _prepare_h(self) -> None:
        """The harness's own process H, saved at two boundaries under two tags."""
        proc = TwoStep(pid='H', loop=self.loop)
        self.persister.save_checkpoint(proc, 'early')
        for _ in range(2):  # CREATED -> RUNNING(run) -> RUNNING(second)
            task = self.loop.create_task(proc.step())
            self.loop.drain()
            task.result()
        self.persister.save_checkpoint(proc, 'late')
        proc.close()
        RAN.clear()
        CONSTRUCTED.clear()
        self.stored[('H', 'early')] = 'run,second'
        self.stored[('H', 'late')] = 'second'

    def close(self) -> None:
        self.loop.shutdown()
        if self.dir:
            shutil.rmtree(self.dir, ignore_errors=True)

    # -- running one task -------------------------------------------------------------------------------------------
    def send(self, task: Dict[str, Any]) -> Tuple[str, Any, List[Tuple[Any, str]]]:
        """Returns (status, value, what had run when the reply became available)."""
        loop = self.loop
        if self.path == 'direct':
            t = loop.create_task(self.launcher(None, task))
            while not t.done() and loop.tick():
                pass
            ran_at_reply = list(RAN)
            loop.drain()
            if not t.done():
                return ('pending', None, ran_at_reply)
            if t.exception() is not None:
                return ('raised', t.exception(), ran_at_reply)
            return ('ok', t.result(), ran_at_reply)
        fut = futures.unwrap_kiwi_future(self.comm.task_send(task))
        while not fut.done() and loop.tick():
            pass
        ran_at_reply = list(RAN)
        loop.drain()
        if not fut.done():
            return ('pending', None, ran_at_reply)
        if fut.cancelled():
            return ('cancelled', None, ran_at_reply)
        if fut.exception() is not None:
            return ('raised', fut.exception(), ran_at_reply)
        return ('ok', fut.result(), ran_at_reply)

    def persisted_keys(self) -> Dict[Tuple[Any, Any], str]:
        """Stored key -> state label of the stored process, read through the public API (load + unbundle)."""
        if self.persister is None:
            return {}
        out = {}
        for cp in self.persister.get_checkpoints():
            bundle = self.persister.load_checkpoint(cp.pid, cp.tag)
            n = len(CONSTRUCTED)
            proc = bundle.unbundle(persistence.LoadSaveContext(loop=self.loop))
            out[(cp.pid, cp.tag)] = proc.state.value
            proc.close()
            del CONSTRUCTED[n:]
        return out

    def apply(self, op: tuple) -> List[Tuple[str, Dict[str, Any], Any]]:
        bad: List[Tuple[str, Dict[str, Any], Any]] = []
        self.n += 1
        pid = f't{self.n}'
        feats = {'op': op[0], 'persister': type(self.persister).__name__ if self.persister else 'none',
                 'loader': 'custom' if self.custom else 'default', 'path': self.path, 'load_context': self.with_context}

        def fail(clause: str, detail: Any = None, **extra: Any) -> None:
            bad.append((clause, dict(feats, **extra), detail))

        ran_before = list(RAN)
        constructed_before = list(CONSTRUCTED)
        keys_before = self.persisted_keys()
        loads_before = len(CountingLoader.loads)
        self.pids.append(None)
        kind = op[0]
        rejected_expected = False
        if kind == 'execute':
            return self.apply_execute(op, pid, feats, fail, bad)
        if kind in ('create', 'launch'):
            cls = CLASSES[op[1]]
            persist = op[2]
            nowait = op[3] if kind == 'launch' else None
            kwargs = {'pid': pid, 'inputs': {'k': self.n}}
            if kind == 'create':
                task = process_comms.create_create_body(cls, init_kwargs=kwargs, persist=persist, loader=self.loader)
            else:
                task = process_comms.create_launch_body(cls, init_kwargs=kwargs, persist=persist, loader=self.loader, nowait=nowait)
            rejected_expected = persist and self.persister is None
        elif kind == 'continue':
            task = process_comms.create_continue_body(op[1], tag=op[2], nowait=op[3])
            rejected_expected = self.persister is None
        elif kind == 'continue-created':
            target = self.pids[op[1]] if op[1] < len(self.pids) - 1 else None
            task = process_comms.create_continue_body(target if target is not None else 'never-created', nowait=op[2])
            rejected_expected = self.persister is None
        else:
            task = {process_comms.TASK_KEY: 'no-such-task', process_comms.TASK_ARGS: {}}
            rejected_expected = True
        status, value, ran_at_reply = self.send(task)
        new_ran = RAN[len(ran_before):]
        new_constructed = CONSTRUCTED[len(constructed_before):]
        keys_after = self.persisted_keys()
        new_keys = {k: v for k, v in keys_after.items() if k not in keys_before}

        def is_rejection(v: Any) -> bool:
            return isinstance(v, communications.TaskRejected) or (
                isinstance(v, kiwipy.RemoteException) and 'TaskRejected' in str(v)) or 'TaskRejected' in repr(v)


        if rejected_expected:
            if status != 'raised' or not is_rejection(value):
                fail('impossible-task-not-rejected', {'status': status, 'value': repr(value)[:200]})
            if new_ran or keys_after != keys_before:  # (merely constructing an instance before refusing is not judged)
                fail('rejected-task-had-effects', {'ran': new_ran, 'constructed': new_constructed, 'keys': sorted(map(repr, new_keys))})
            return bad
        if kind == 'create':
            self.pids[-1] = pid
            if status != 'ok' or value != pid:
                fail('create:reply', {'status': status, 'value': repr(value)[:200]})
            if new_constructed != [pid]:
                fail('create:construction', new_constructed)
            if new_ran:
                fail('create:process-was-run', new_ran)
            want_keys = {(pid, None): 'created'} if op[2] else {}
            if new_keys != want_keys:
                fail('create:persistence', {'got': sorted(map(repr, new_keys.items())), 'want': sorted(map(repr, want_keys.items()))},
                     persist=op[2])
            if op[2]:
                self.stored[(pid, None)] = ','.join(FULL_TRACE[op[1]])
                if op[1] in FAILS:
                    self.failing.add((pid, None))
        elif kind == 'launch':
            self.pids[-1] = pid
            full = [(pid, s) for s in FULL_TRACE[op[1]]]
            if new_constructed != [pid]:
                fail('launch:construction', new_constructed)
            if new_ran != full:
                fail('launch:not-run-exactly-once', {'ran': new_ran, 'want': full}, cls=op[1])
            want_keys = {(pid, None): 'created'} if op[2] else {}
            # ("persisting it first": what the store shows once the launch is over - the first checkpoint, a later one,
            #  none any more - is not laid down; nothing may be stored for a launch that was not to be persisted)
            if not set(new_keys) <= set(want_keys):
                fail('launch:persistence', {'got': sorted(map(repr, new_keys.items())), 'want': sorted(map(repr, want_keys.items()))},
                     persist=op[2])
            if op[2] and (pid, None) in new_keys:
                stored_state = new_keys.get((pid, None), 'created')
                # 'created': everything is still to run; otherwise any rest of the run (a checkpoint kept current)
                self.stored[(pid, None)] = ','.join(FULL_TRACE[op[1]]) if stored_state == 'created' else SOME_REST + ','.join(FULL_TRACE[op[1]])
                if op[1] in FAILS:
                    self.failing.add((pid, None))
            if op[3]:  # nowait
                if status != 'ok' or value != pid:
                    fail('launch:nowait-reply', {'status': status, 'value': repr(value)[:200]})
            elif op[1] in FAILS:
                if status != 'raised':  # (the reply is the process's error: how it is worded or wrapped is not laid down)
                    fail('launch:error-not-reported', {'status': status, 'value': repr(value)[:200]})
            else:
                want_out = {'two': {'first': 1, 'second': 2}, 'one': {'only': 'x'}}[op[1]]
                if status != 'ok' or value != want_out:
                    fail('launch:reply-not-outputs', {'status': status, 'value': repr(value)[:200], 'want': want_out})
        elif kind in ('continue', 'continue-created'):
            if kind == 'continue':
                key = (op[1], op[2])
                nowait = op[3]
            else:
                target = self.pids[op[1]] if op[1] < len(self.pids) - 1 else None
                key = (target, None)
                nowait = op[2]
            remaining = self.stored.get(key)
            if remaining is None:
                if status == 'ok' and not nowait:  # (with nowait the id may be returned before the checkpoint is looked for)
                    fail('continue:absent-checkpoint-accepted', repr(value)[:200])
                if new_ran or new_constructed:
                    fail('continue:absent-checkpoint-had-effects', {'ran': new_ran, 'constructed': new_constructed})
            else:
                some_rest = remaining.startswith(SOME_REST)
                want = [(key[0], s) for s in remaining[len(SOME_REST) if some_rest else 0:].split(',') if s]
                if some_rest:
                    ok = any(new_ran == want[i:] for i in range(len(want) + 1))
                    self.stored[key] = SOME_REST  # (whatever was left has run now)
                else:
                    ok = new_ran == want
                if not ok:
                    fail('continue:does-not-resume-the-checkpoint', {'ran': new_ran, 'want': want}, tag=repr(key[1]))
                cls_name = 'fail' if self._is_failing(key) else None
                if nowait:
                    if status != 'ok' or value != key[0]:
                        fail('continue:nowait-reply', {'status': status, 'value': repr(value)[:200]})
                elif cls_name == 'fail':
                    if status != 'raised':
                        fail('continue:error-not-reported', {'status': status, 'value': repr(value)[:200]})
                elif status != 'ok' or not isinstance(value, dict):
                    if not (status == 'raised' and self._is_failing(key)):
                        fail('continue:reply-not-outputs', {'status': status, 'value': repr(value)[:200]})
            if new_keys:
                fail('continue:persisted-something', sorted(map(repr, new_keys)))
        if self.custom and kind in ('create', 'launch', 'continue', 'continue-created') and not bad:
            needs_load = kind in ('create', 'launch') or self.stored.get(key if kind != 'create' and kind != 'launch' else None) is not None \
                if kind in ('continue', 'continue-created') else True
            if needs_load and len(CountingLoader.loads) == loads_before:
                fail('configured-loader-not-used', None)
        return bad

    def apply_execute(self, op: tuple, pid: str, feats: Dict[str, Any], fail: Any, bad: list) -> list:
        """RemoteProcessThreadController.execute_process (only exists on the communicator path)."""
        if self.controller is None:
            return bad
        loop = self.loop
        ran_before = list(RAN)
        constructed_before = list(CONSTRUCTED)
        keys_before = self.persisted_keys()
        fut = self.controller.execute_process(CLASSES[op[1]], init_kwargs={'pid': pid, 'inputs': {'k': self.n}},
                                              loader=self.loader, nowait=op[2])
        fut = futures.unwrap_kiwi_future(fut)
        while not fut.done() and loop.tick():
            pass
        loop.drain()
        new_ran = RAN[len(ran_before):]
        new_keys = {k: v for k, v in self.persisted_keys().items() if k not in keys_before}
        if self.persister is None:
            # (how execute_process is put together from launcher tasks - create + continue, which needs a persister, or a
            #  plain launch - is not part of the statement: either it is refused without having run anything, or it runs)
            exc = fut.exception() if fut.done() and not fut.cancelled() else None
            if exc is not None and not new_ran:
                return bad  # refused, and nothing ran
        self.pids[-1] = pid
        full = [(pid, s) for s in FULL_TRACE[op[1]]]
        if new_ran != full:
            fail('execute:not-run-exactly-once', {'ran': new_ran, 'want': full}, cls=op[1])
        if (pid, None) in new_keys:
            self.stored[(pid, None)] = SOME_REST + ','.join(FULL_TRACE[op[1]]) if new_keys[(pid, None)] != 'created' \
                else ','.join(FULL_TRACE[op[1]])
            if op[1] in FAILS:
                self.failing.add((pid, None))
        if not fut.done():
            fail('execute:no-reply', repr(fut))
        elif op[2]:
            if fut.cancelled() or fut.exception() is not None or fut.result() != pid:
                fail('execute:nowait-reply', repr(fut))
        elif op[1] in FAILS:
            if fut.cancelled() or fut.exception() is None:
                fail('execute:error-not-reported', repr(fut))
        elif fut.cancelled() or fut.exception() is not None or fut.result() != {'first': 1, 'second': 2}:
            fail('execute:reply-not-outputs', repr(fut))
        return bad

    def _is_failing(self, key: Tuple[Any, Any]) -> bool:
        return key in self.failing

    def key(self) -> Any:
        return (tuple(sorted((repr(k), v) for k, v in self.stored.items())), tuple(x is not None for x in self.pids))


def build(config: Tuple[Any, ...], history: Tuple[tuple, ...]) -> Tuple[System, List[Tuple[str, Dict[str, Any], Any]]]:
    system = System(*config)
    bad: List[Tuple[str, Dict[str, Any], Any]] = []
    for i, op in enumerate(history):
        found = system.apply(op)
        if i == len(history) - 1:
            bad = found
    return system, bad


def bfs(args: Tuple[Tuple[Any, ...], int]) -> Dict[str, Any]:
    config, max_depth = args
    out: Dict[str, Any] = {'states': 0, 'transitions': 0, 'violations': [], 'nontrivial': 0}
    root = System(*config)
    seen = {root.key()}
    root.close()
    frontier: collections.deque = collections.deque([()])
    while frontier:
        hist = frontier.popleft()
        if len(hist) >= max_depth:
            continue
        for op in alphabet(len(hist)):
            new = hist + (op,)
            try:
                with explore.watchdog(4 * explore.WATCHDOG_S):
                    system, bad = build(config, new)
            except explore.Hang as hang:
                out['violations'].append({'clause': 'hang', 'features': {'op': op[0]}, 'detail': str(hang),
                                          'case': {'config': config, 'history': new}})
                continue
            except Exception as exc:  # noqa: BLE001
                import traceback
                out['violations'].append({'clause': 'harness-raised', 'features': {'exc': type(exc).__name__, 'op': op[0]},
                                          'detail': traceback.format_exc()[-500:], 'case': {'config': config, 'history': new}})
                continue
            try:
                out['transitions'] += 1
                if op[0].startswith('continue') and not bad:
                    out['nontrivial'] += 1
                for clause, feats, detail in bad:
                    if len(out['violations']) < 80:
                        out['violations'].append({'clause': clause, 'features': feats, 'detail': detail,
                                                  'case': {'config': config, 'history': new}})
                k = system.key()
            finally:
                system.close()
            if k not in seen:
                seen.add(k)
                frontier.append(new)
    out['states'] = len(seen)
    return out


def run_check(tier: str, seed: int, workers: Any) -> Dict[str, Any]:
    configs = [(p, l, path, ctx) for p in ('none', 'memory', 'pickle') for l in ('default', 'custom')
               for path in ('direct', 'controller') for ctx in (False, True) if not (ctx and p == 'none')]
    depth = 2 if tier == 'quick' else 3
    jobs = [(c, depth) for c in configs]
    k = seed % len(jobs)
    jobs = jobs[k:] + jobs[:k]
    total: Dict[str, Any] = {'states': 0, 'transitions': 0, 'violations': [], 'nontrivial': 0}
    with mp.get_context('fork').Pool(min(len(jobs), workers or os.cpu_count() or 1)) as pool:
        for res in pool.imap_unordered(bfs, jobs):
            for key in ('states', 'transitions', 'nontrivial'):
                total[key] += res[key]
            total['violations'].extend(res['violations'])
    best: Dict[Any, Any] = {}
    for v in total['violations']:
        key = (v['clause'], repr(sorted(v['features'].items())))
        if key not in best or len(v['case']['history']) < len(best[key]['case']['history']):
            best[key] = v
    violations = sorted(best.values(), key=lambda v: (len(v['case']['history']), v['clause'], repr(v['features'])))
    coverage = {
        'states': total['states'], 'transitions': total['transitions'], 'traces_validated_against_impl': total['transitions'],
        'evaluations': total['transitions'], 'distinct_nontrivial': total['nontrivial'],
        'rule': f'BFS to depth {depth} over histories of create(cls, persist) / launch(cls, persist, nowait) / continue(pid, tag, '
                'nowait) for checkpoints saved by the harness at two boundaries under two tags, for processes created or '
                'launched earlier in the history, for a missing tag and an unknown pid / bogus task type; classes: two-step '
                'with outputs, failing, one-step; x persister {none, in-memory, pickle} x loader {default, custom counting} x '
                '{direct await, LoopCommunicator + task_send}; non-trivial = accepted continue tasks',
        'samples': [{'config': list(jobs[0][0]), 'history': [list(map(repr, op)) for op in alphabet(0)[:3]]}],
        'exhaustive': True, 'depth_bound': depth,
    }
    return {'violations': violations, 'coverage': coverage, 'errors': [], 'level': 'model_checking',
            'assumptions': ['the launcher runs on the deterministic loop; a communicator thread is modelled by loop callbacks',
                            'canonical state = persisted keys with what remains to run + which tasks produced a pid'],
            'bounds': {'depth': depth, 'configurations': len(configs)}}


def replay(doc: Dict[str, Any]) -> List[dict]:
    from ..cli import to_tuple
    case = doc['case']
    system, bad = build(to_tuple(case['config']), to_tuple(case['history']))
    system.close()
    return [{'clause': c, 'features': f, 'detail': d, 'case': case} for c, f, d in bad]
