# -*- coding: utf-8 -*-
"""C08 - resuming from any checkpoint reproduces the uninterrupted execution (DESIGN.md 3, C08).

Part A: generated Process programs (sync/async steps, continuations with arguments, waits, outputs, all final outcomes).
Part B: WorkChain outlines (the C09 family, reduced) whose steps and predicates take their values from a decision list
        indexed by a cursor kept in ``ctx`` (so they depend only on persisted state); every decision sequence is explored.
For every program and every subset of <=M state-entry boundaries the process is checkpointed there, the running instance
abandoned, the bundle sent through pickle (thorough: also deepcopy / yaml) and continued on a fresh loop; trace, outputs,
ctx, final state and result must equal the uninterrupted run's.
"""
from __future__ import annotations

import itertools
import multiprocessing as mp
import os
import sys
from typing import Any, Dict, Iterator, List, Optional, Tuple

import plumpy
from plumpy import persistence, process_states
from plumpy import workchains as wc

from .. import ckpt, explore, programs
from ..ckpt import PS
from ..explore import Chooser
from . import c09

ID = 'C08'
RESUMES = ('r1', 'r2', 'r3')


def outcome(proc: Any) -> tuple:
    state = proc.state
    if state == PS.FINISHED:
        return ('FINISHED', repr(proc.result()), proc.successful())
    if state == PS.EXCEPTED:
        exc = proc.exception()
        return ('EXCEPTED', type(exc).__name__, repr(getattr(exc, 'args', None)))
    if state == PS.KILLED:
        return ('KILLED', repr(proc.killed_msg()))
    return ('LIVE', str(state))


# ---- part A ------------------------------------------------------------------------------------------------------------

def programs_a(tier: str) -> List[tuple]:
    kinds = ('S', 'Y1')
    progs = list(programs.linear_programs(3 if tier != 'quick' else 2, kinds, ('cont', 'cont_a', 'wait', 'wait_d'),
                                          ('ret', 'unsucc', 'killcmd', 'raise')))
    if tier == 'quick':
        progs += list(programs.linear_programs(3, ('S',), ('cont_a', 'wait'), ('ret', 'raise'), min_len=3))
    small = list(programs.linear_programs(2, ('S', 'Y1'), ('cont', 'wait'), ('ret',)))
    progs += list(programs.with_actions(small, ('out', 'status')))
    return progs


def observe_a(program: tuple, restore_at: tuple, medium: str, foreign_loop: bool = False) -> Tuple[Any, List[str]]:
    from .c07 import InBase  # declared inputs with defaults, which the steps read (recorded in the trace)
    cls = programs.make_class(program, InBase)
    world = ckpt.CkptWorld(restore_at, list(RESUMES), medium, foreign_loop=foreign_loop)
    try:
        proc = world.run(cls)
        obs = (outcome(proc), repr(sorted(proc.outputs.items())), tuple(proc._trace),
               tuple((t[0], t[1], t[2], t[4]) for t in world.trace if t[3] == 'enter'), None)
        return obs, list(world.errors), world.boundary, world.restores
    finally:
        world.finish()


def check_a(program: tuple, max_m: int, media: Tuple[str, ...]) -> Dict[str, Any]:
    out: Dict[str, Any] = {'n': 0, 'violations': [], 'nontrivial': 0, 'restores': 0}
    ref, errors, nb, _ = observe_a(program, (), media[0])
    out['n'] += 1
    if errors:
        out['violations'].append({'clause': 'reference-run-stuck', 'features': {}, 'detail': errors,
                                  'case': {'part': 'A', 'program': program, 'restore_at': (), 'medium': media[0]}})
        return out
    for medium in media:
        for size in range(1, max_m + 1):
            for subset in itertools.combinations(range(0, nb + 1), size):
                out['n'] += 1
                out['nontrivial'] += 1
                case = {'part': 'A', 'program': program, 'restore_at': subset, 'medium': medium}
                try:
                    got, errors, _, restores = observe_a(program, subset, medium)
                    out['restores'] += restores
                except Exception as exc:  # noqa: BLE001
                    out['violations'].append({'clause': 'restore-raised', 'features': {'exc': type(exc).__name__, 'part': 'A'},
                                              'detail': repr(exc), 'case': case})
                    continue
                if errors:
                    out['violations'].append({'clause': 'stuck-after-restore', 'features': {'part': 'A'}, 'detail': errors,
                                              'case': case})
                elif got != ref:
                    what = ['outcome', 'outputs', 'persisted-trace', 'executed-steps'][
                        next(i for i in range(4) if got[i] != ref[i])]
                    out['violations'].append({'clause': f'differs:{what}', 'features': {'part': 'A', 'n_restores': len(subset)},
                                              'detail': {'got': got, 'reference': ref}, 'case': case})
    # every single boundary once more, the checkpoint being loaded while another loop is the current one
    for boundary in range(0, nb + 1):
        out['n'] += 1
        case = {'part': 'A', 'program': program, 'restore_at': (boundary,), 'medium': media[0], 'foreign_loop': True}
        feats = {'part': 'A', 'foreign_loop': True}
        try:
            got, errors, _, restores = observe_a(program, (boundary,), media[0], foreign_loop=True)
            out['restores'] += restores
        except Exception as exc:  # noqa: BLE001
            out['violations'].append({'clause': 'restore-raised', 'features': dict(feats, exc=type(exc).__name__),
                                      'detail': repr(exc), 'case': case})
            continue
        if errors:
            out['violations'].append({'clause': 'stuck-after-restore', 'features': feats, 'detail': errors, 'case': case})
        elif got != ref:
            what = ['outcome', 'outputs', 'persisted-trace', 'executed-steps'][next(i for i in range(4) if got[i] != ref[i])]
            out['violations'].append({'clause': f'differs:{what}', 'features': dict(feats, n_restores=1),
                                      'detail': {'got': got, 'reference': ref}, 'case': case})
    return out


# ---- part C: the checkpoint is taken while the process is paused ---------------------------------------------------------

def observe_paused(program: tuple, pause_at: int, medium: str, restore: bool) -> Tuple[Any, List[str], int, bool]:
    """Run with a pause request before tick ``pause_at``; when the process is paused and the loop quiescent, bundle it,
    drop the instance and its loop, restore on a fresh loop (if ``restore``), then play and run to the end."""
    from .c07 import InBase
    cls = programs.make_class(program, InBase)
    world = ckpt.CkptWorld((), list(RESUMES), medium)
    prev, programs.ENV = programs.ENV, world
    restored = False
    ticks = 0
    try:
        loop = world._new_loop()
        proc = cls(inputs=None, pid='p0', loop=loop)
        loop.create_task(proc.step_until_terminated())
        requested = False
        for _ in range(300):
            if not requested and ticks == pause_at and not proc.has_terminated():
                proc.pause('checkpoint-pause')
                requested = True
            if loop.tick():
                ticks += 1
                continue
            if proc.has_terminated():
                break
            pending = [g for g, f in sorted(world.gates.items()) if not f.done()]
            if proc.paused:
                if restore and not restored:
                    bundle = ckpt.through(persistence.Bundle(proc), medium)
                    loop = world._new_loop()  # shuts the old loop down: the old instance is gone
                    proc = bundle.unbundle(persistence.LoadSaveContext(loop=loop))
                    world.attach(proc)
                    restored = True
                    if not proc.paused:
                        world.errors.append('restored process is not paused')
                    loop.create_task(proc.step_until_terminated())
                    continue
                proc.play()
            elif pending:
                world.gates[pending[0]].set_result(f'g{pending[0]}')
            elif proc.state == PS.WAITING:
                proc.resume(world.resume_script.pop(0) if world.resume_script else 'r')
            else:
                world.errors.append(f'stuck: {proc.state}')
                break
        obs = (outcome(proc), repr(sorted(proc.outputs.items())), tuple(proc._trace),
               tuple((t[0], t[1], t[2], t[4]) for t in world.trace if t[3] == 'enter'), proc.status)
        return obs, list(world.errors), ticks, restored
    finally:
        programs.ENV = prev
        world.finish()


def check_c(program: tuple, media: Tuple[str, ...]) -> Dict[str, Any]:
    out: Dict[str, Any] = {'n': 0, 'violations': [], 'nontrivial': 0, 'restores': 0}
    _, errors, ticks, _ = observe_paused(program, -1, media[0], False)
    out['n'] += 1
    if errors:
        return out
    for medium in media:
        for pause_at in range(0, ticks + 1):
            out['n'] += 2
            case = {'part': 'C', 'program': program, 'pause_at': pause_at, 'medium': medium}
            try:
                # the reference is the same paused run without the checkpoint / restore in the middle
                ref, ref_errors, _, _ = observe_paused(program, pause_at, medium, False)
                if ref_errors:
                    continue
                got, errors, _, restored = observe_paused(program, pause_at, medium, True)
            except Exception as exc:  # noqa: BLE001
                out['violations'].append({'clause': 'restore-raised', 'features': {'exc': type(exc).__name__, 'part': 'C'},
                                          'detail': repr(exc), 'case': case})
                continue
            if restored:
                out['nontrivial'] += 1
                out['restores'] += 1
            if errors:
                out['violations'].append({'clause': 'stuck-after-restore', 'features': {'part': 'C'}, 'detail': errors, 'case': case})
            elif got[:4] != ref[:4]:  # (the status message is C05's business and is judged there, see c05.check_restored_pause)
                what = ['outcome', 'outputs', 'persisted-trace', 'executed-steps'][next(i for i in range(4) if got[i] != ref[i])]
                out['violations'].append({'clause': f'differs:{what}', 'features': {'part': 'C'},
                                          'detail': {'got': got, 'reference': ref}, 'case': case})
    return out


# ---- part B ------------------------------------------------------------------------------------------------------------

ENV: Any = None  # decision source of the running workchain execution


class Decisions:
    """Values for predicate / step calls: position ``pos`` of a list that is extended by the chooser when it runs out."""

    def __init__(self, known: List[Any], chooser: Optional[Chooser], whiles: set) -> None:
        self.known = known
        self.chooser = chooser
        self.whiles = whiles

    def get(self, ctx: Any, name: str, is_pred: bool) -> Any:
        pos = ctx.pos
        if pos < len(self.known):
            value = self.known[pos]
        else:
            assert self.chooser is not None, 'decision list exhausted in a replay'
            if is_pred:
                trues = sum(1 for (n, v) in ctx.calls if n == name and v)
                if name in self.whiles and trues >= c09.W:
                    value = False
                else:
                    value = bool(self.chooser.choose([((name, False), ''), ((name, True), '')]))
            else:
                value = c09.STEP_VALUES[self.chooser.choose([((name, v), '') for v in c09.STEP_VALUES])]
            self.known.append(value)
        ctx.pos = pos + 1
        ctx.calls = ctx.calls + [(name, value)]
        return value


_WC_CLASSES: Dict[Any, Tuple[type, set]] = {}


def build_wc(named: tuple) -> Tuple[type, set]:
    if named in _WC_CLASSES:
        return _WC_CLASSES[named]
    ns: Dict[str, Any] = {}
    whiles: set = set()

    def mk(name: str, is_pred: bool) -> Any:
        def fn(self: Any) -> Any:
            value = ENV.get(self.ctx, name, is_pred)
            return wc.ToContext() if (not is_pred and value == c09.CTX) else value
        fn.__name__ = name
        return fn

    def collect(block: tuple) -> None:
        for ins in block:
            if ins[0] == 'step':
                ns[ins[1]] = mk(ins[1], False)
            elif ins[0] == 'while':
                ns[ins[1]] = mk(ins[1], True)
                whiles.add(ins[1])
                collect(ins[2])
            elif ins[0] == 'if':
                for pred, body in ins[1]:
                    ns[pred] = mk(pred, True)
                    collect(body)
                if ins[2] is not None:
                    collect(ins[2])

    collect(named)

    def to_outline(cls: Any, block: tuple) -> List[Any]:
        out = []
        for ins in block:
            if ins[0] == 'step':
                out.append(getattr(cls, ins[1]))
            elif ins[0] == 'ret':
                out.append(wc.return_ if ins[1] is None else wc.return_(ins[1]))
            elif ins[0] == 'while':
                out.append(wc.while_(getattr(cls, ins[1]))(*to_outline(cls, ins[2])))
            else:
                conds = ins[1]
                node = wc.if_(getattr(cls, conds[0][0]))(*to_outline(cls, conds[0][1]))
                for pred, body in conds[1:]:
                    node = node.elif_(getattr(cls, pred))(*to_outline(cls, body))
                if ins[2] is not None:
                    node = node.else_(*to_outline(cls, ins[2]))
                out.append(node)
        return out

    def define(cls: Any, spec: Any) -> None:
        super(klass, cls).define(spec)
        spec.outline(*to_outline(cls, named))

    def __init__(self: Any, *args: Any, **kwargs: Any) -> None:
        plumpy.WorkChain.__init__(self, *args, **kwargs)
        self._trace = []
        self.ctx.pos = 0
        self.ctx.calls = []
        if programs.ENV is not None:
            programs.ENV.attach(self)

    ns['define'] = classmethod(define)
    ns['__init__'] = __init__
    ns['__module__'] = __name__
    name = f'CkptChain_{explore.digest(named)}'
    klass = type(name, (plumpy.WorkChain,), ns)
    setattr(sys.modules[__name__], name, klass)
    _WC_CLASSES[named] = (klass, whiles)
    return klass, whiles


def observe_b(klass: type, whiles: set, known: List[Any], chooser: Optional[Chooser], restore_at: tuple,
              medium: str, exit_restore_at: tuple = (), spare_saves: bool = False) -> Tuple[Any, List[str], int, int]:
    global ENV
    world = ckpt.CkptWorld(restore_at, [], medium, exit_restore_at=exit_restore_at, spare_saves=spare_saves)
    prev, ENV = ENV, Decisions(known, chooser, whiles)
    try:
        proc = world.run(klass)
        obs = (outcome(proc), tuple(proc.ctx.calls), proc.ctx.pos)
        return obs, list(world.errors), world.boundary, world.restores
    finally:
        ENV = prev
        world.finish()


def outlines_b(tier: str) -> List[tuple]:
    step = ('step',)
    b01 = c09.blocks_of(c09.LEAVES, 1)
    b02 = c09.blocks_of(c09.LEAVES, 2)
    units: List[tuple] = list(c09.blocks_of(c09.LEAVES, 2))
    c1 = c09.compounds(b02 if tier != 'quick' else b01 + [(step, step), (step, ('ret', 3))], 2, else_from=1)
    for x in c1:
        units += [(x,), (step, x, step)]
    c11 = c09.compounds(b01, 1)
    units += [(x, y) for x in c11 for y in c11]
    inner = [(x,) for x in [step] + c11]
    d2 = c09.compounds(inner, 1)
    units += [(step, x, step) for x in d2] if tier != 'quick' else [(x, step) for x in d2]
    return units


def check_b(unit: tuple, max_m: int, media: Tuple[str, ...]) -> Dict[str, Any]:
    out: Dict[str, Any] = {'n': 0, 'violations': [], 'nontrivial': 0, 'restores': 0}
    named = c09.name_ast(unit, c09.Names())
    klass, whiles = build_wc(named)
    refs: List[Tuple[List[Any], Any, int]] = []

    def run(chooser: Chooser) -> explore.ExecResult:
        known: List[Any] = []
        obs, errors, nb, _ = observe_b(klass, whiles, known, chooser, (), media[0])
        res = explore.ExecResult()
        if errors:
            res.violations.append({'clause': 'reference-run-stuck', 'features': {}, 'detail': errors})
        refs.append((list(known), obs, nb))
        return res

    explore.dfs(run, {})
    for known, ref, nb in refs:
        out['n'] += 1
        for medium in media:
            for size in range(1, max_m + 1):
                for subset in itertools.combinations(range(0, nb + 1), size):
                    out['n'] += 1
                    out['nontrivial'] += 1
                    case = {'part': 'B', 'outline': unit, 'decisions': known, 'restore_at': subset, 'medium': medium}
                    try:
                        got, errors, _, restores = observe_b(klass, whiles, list(known), None, subset, medium)
                        out['restores'] += restores
                    except Exception as exc:  # noqa: BLE001
                        out['violations'].append({'clause': 'restore-raised', 'features': {'exc': type(exc).__name__, 'part': 'B'},
                                                  'detail': repr(exc), 'case': case})
                        continue
                    if errors:
                        out['violations'].append({'clause': 'stuck-after-restore', 'features': {'part': 'B'},
                                                  'detail': errors, 'case': case})
                    elif got != ref:
                        what = ['outcome', 'executed-steps', 'cursor'][next(i for i in range(3) if got[i] != ref[i])]
                        out['violations'].append({'clause': f'differs:{what}', 'features': {
                            'part': 'B', 'n_restores': len(subset), 'kinds': c09.kinds_in(named)},
                            'detail': {'outline': c09.shape(named), 'got': got, 'reference': ref}, 'case': case})
        # the checkpoint is taken when the k-th step has returned and its state is about to be left (the other side of the
        # step boundary), and a checkpoint was also written - and never used - every time a state had been entered; the
        # step that ends the chain is left out (what re-running a finished outline does is not laid down)
        for k in range(1, nb):
            out['n'] += 1
            case = {'part': 'B', 'outline': unit, 'decisions': known, 'exit_restore_at': (k,), 'medium': media[0]}
            try:
                got, errors, _, restores = observe_b(klass, whiles, list(known), None, (), media[0], exit_restore_at=(k,),
                                                     spare_saves=True)
                out['restores'] += restores
            except Exception as exc:  # noqa: BLE001
                out['violations'].append({'clause': 'restore-raised', 'features': {'exc': type(exc).__name__, 'part': 'B', 'at': 'exit'},
                                          'detail': repr(exc), 'case': case})
                continue
            if errors:
                out['violations'].append({'clause': 'stuck-after-restore', 'features': {'part': 'B', 'at': 'exit'},
                                          'detail': errors, 'case': case})
            elif got != ref:
                what = ['outcome', 'executed-steps', 'cursor'][next(i for i in range(3) if got[i] != ref[i])]
                out['violations'].append({'clause': f'differs:{what}', 'features': {
                    'part': 'B', 'at': 'exit', 'kinds': c09.kinds_in(named)},
                    'detail': {'outline': c09.shape(named), 'got': got, 'reference': ref}, 'case': case})
    return out


def _work(job: tuple) -> Dict[str, Any]:
    part, unit, max_m, media = job
    try:
        with explore.watchdog(20 * explore.WATCHDOG_S):
            if part == 'C':
                res = check_c(unit, media)
            else:
                res = check_a(unit, max_m, media) if part == 'A' else check_b(unit, max_m, media)
    except explore.Hang as hang:
        res = {'n': 1, 'nontrivial': 0, 'restores': 0, 'violations': [{'clause': 'hang', 'features': {'part': part}, 'detail': str(hang),
                                                                       'case': {'part': part, 'unit': unit}}]}
    res['violations'] = res['violations'][:20]
    return res


def run_check(tier: str, seed: int, workers: Any) -> Dict[str, Any]:
    max_m = 2 if tier == 'quick' else 3
    media: Tuple[str, ...] = ('pickle',) if tier == 'quick' else ('pickle', 'deepcopy', 'yaml')
    jobs = [('A', p, max_m, media) for p in programs_a(tier)]
    jobs += [('B', u, 1 if tier == 'quick' else 2, media[:1] if tier == 'quick' else media[:2]) for u in outlines_b(tier)]
    jobs += [('C', p, 0, media) for p in programs_a(tier)]
    k = seed % len(jobs)
    jobs = jobs[k:] + jobs[:k]
    total: Dict[str, Any] = {'n': 0, 'violations': [], 'nontrivial': 0, 'restores': 0}
    with mp.get_context('fork').Pool(workers or min(16, os.cpu_count() or 1)) as pool:
        for res in pool.imap_unordered(_work, jobs, chunksize=4):
            for key in ('n', 'nontrivial', 'restores'):
                total[key] += res[key]
            total['violations'].extend(res['violations'])
    best: Dict[Any, Any] = {}
    for v in total['violations']:
        key = (v['clause'], repr(sorted(v['features'].items())))
        size_key = (len(repr(v['case'])), repr(v['case']))
        if key not in best or size_key < best[key][0]:
            best[key] = (size_key, v)
    violations = [v for _, v in sorted(best.values(), key=lambda x: x[0])]
    n_a = sum(1 for j in jobs if j[0] == 'A')
    coverage = {
        'evaluations': total['n'], 'distinct_nontrivial': total['nontrivial'], 'states': len(jobs),
        'transitions': total['n'] + total['restores'], 'traces_validated_against_impl': total['n'],
        'programs': len(jobs), 'process_programs': n_a, 'workchain_outlines': len(jobs) - n_a, 'restores': total['restores'],
        'rule': f'part A: {n_a} generated Process programs (sync/async steps, Continue with/without arguments, Wait, outputs, '
                'finished/unsuccessful/killed/excepted endings) x every subset of <= M state-entry boundaries; part B: '
                f'{sum(1 for j in jobs if j[0] == "B")} WorkChain outlines x every decision sequence x every subset of boundaries; at each chosen '
                'boundary: Bundle -> medium -> abandon the instance (exception out of the ENTERED callback) -> unbundle on a '
                'fresh loop -> continue; compared with the uninterrupted run; for the outlines also: the checkpoint taken when the k-th step '
                'has returned and its state is being left (every k but the last), with a checkpoint written and discarded at every '
                'state entry before; non-trivial = at least one restore',
        'samples': [{'part': 'A', 'program': programs.describe(jobs[0][1]) if jobs[0][0] == 'A' else repr(jobs[0][1]),
                     'M': max_m, 'media': list(media)}],
        'exhaustive': True,
    }
    return {'violations': violations, 'coverage': coverage, 'errors': [], 'level': 'model_checking',
            'assumptions': ['steps depend only on persisted state (trace member, ctx)', 'checkpoints are taken when a '
                            'non-terminal state has been entered and not yet executed, and right after construction'],
            'bounds': {'M_process': max_m, 'M_workchain': 1 if tier == 'quick' else 2, 'media': list(media)}}


def replay(doc: Dict[str, Any]) -> List[dict]:
    from ..cli import to_tuple
    case = doc['case']
    if case['part'] == 'C':
        return check_c(to_tuple(case['program']), (case['medium'],))['violations']
    if case['part'] == 'A':
        res = check_a(to_tuple(case['program']), len(case['restore_at']) or 1, (case['medium'],))
    else:
        res = check_b(to_tuple(case['outline']), len(case.get('restore_at') or ()) or 1, (case['medium'],))
    return res['violations']
