# -*- coding: utf-8 -*-
"""Control harness: one generated process on a VLoop, driven through every placement of control requests.

Shared by the schedule-quantified properties (C01 C02 C04 C05 C06 ...).  A property supplies a ``Config`` (alphabet of
control requests, budgets are given to the explorer, closing policy) and an oracle object with ``sample(world)`` and
``finish(world)``.  Verdicts only use public observations (DESIGN.md 2.4); everything the oracle may look at is
collected here through public API: state-event callbacks, a ProcessListener, values returned by the control calls,
exceptions, loop exception contexts and the trace written by the generated user code.
"""
from __future__ import annotations

import asyncio
import gc
from typing import Any, Callable, Dict, List, Optional, Sequence, Tuple

import plumpy
from plumpy import process_states
from plumpy.base import state_machine

from . import programs
from .explore import Chooser, ExecResult
from .vloop import Horizon, NestedDeadlock, VLoop

ProcessState = process_states.ProcessState
TERMINAL = (ProcessState.FINISHED, ProcessState.EXCEPTED, ProcessState.KILLED)


class FailError(Exception):
    """The exception handed to ``Process.fail`` by the environment."""


class Abandon(BaseException):
    """Raised from a callback to abandon the running instance (checkpoint / crash exploration)."""


class Config:
    def __init__(self, alphabet: Sequence[tuple], closing: Sequence[str] = ('gates', 'play', 'resume'),
                 early_gates: bool = True, gate_cost: str = 'J', op_cost: str = 'K', resume_default: tuple = ('dflt',),
                 horizon: int = 3000, ops_when: str = 'live', max_closing: int = 40,
                 slot_bound: Optional[int] = None, burst: bool = False) -> None:
        self.alphabet = tuple(alphabet)
        self.closing = tuple(closing)
        self.early_gates = early_gates
        self.gate_cost = gate_cost
        self.op_cost = op_cost
        self.resume_default = resume_default
        self.horizon = horizon
        self.ops_when = ops_when
        self.max_closing = max_closing
        self.cost_of: Any = None
        # closure search: at most this many environment events between two loop callbacks (None: no such limit)
        self.slot_bound = slot_bound
        # burst mode: requests are only placed where the loop is quiescent and right behind one another in that same slot
        # (long sequences at few places, the complement of few requests at every place)
        self.burst = burst


class ScriptedListener(plumpy.ProcessListener):
    """On the n-th occurrence of ``event`` issue ``op`` on the process (a control request from inside a transition)."""

    EVENTS = ('running', 'waiting', 'paused', 'played', 'output_emitted', 'finished', 'excepted', 'killed')

    def __init__(self, world: 'World', script: Optional[tuple]) -> None:
        super().__init__()
        self.world = world
        self.script = script
        # one (event, n, op) triple or a tuple of such triples
        self.scripts = () if script is None else ((script,) if isinstance(script[0], str) else tuple(script))
        self.counts: Dict[str, int] = {}
        self.log: List[tuple] = []

    def _event(self, name: str, proc: Any, *args: Any) -> None:
        n = self.counts.get(name, 0) + 1
        self.counts[name] = n
        self.log.append((name,) + tuple(args))
        for ev, nth, op in self.scripts:
            if ev == name and nth == n and op[0] != 'oneshot':
                self.world.logged_call(proc, op[0], op[1:], origin=f'listener:{name}')

    def on_process_running(self, process: Any) -> None:
        self._event('running', process)

    def on_process_waiting(self, process: Any) -> None:
        self._event('waiting', process)

    def on_process_paused(self, process: Any) -> None:
        self._event('paused', process)

    def on_process_played(self, process: Any) -> None:
        self._event('played', process)

    def on_output_emitted(self, process: Any, output_port: str, value: Any, dynamic: bool) -> None:
        self._event('output_emitted', process, output_port, value, dynamic)

    def on_process_finished(self, process: Any, outputs: Any) -> None:
        self._event('finished', process, repr(outputs))

    def on_process_excepted(self, process: Any, reason: str) -> None:
        self._event('excepted', process, reason)

    def on_process_killed(self, process: Any, msg: Any) -> None:
        self._event('killed', process, repr(msg))


class OneShot(plumpy.ProcessListener):
    """A listener that unsubscribes itself from inside its n-th ``event`` notification (script op ``('oneshot',)``); it is
    registered *before* the recording listener, so a notification loop that is disturbed by the removal skips that one."""

    def __init__(self, event: str, nth: int) -> None:
        super().__init__()
        self.event, self.nth, self.seen = event, nth, 0

    def _event(self, name: str, proc: Any) -> None:
        if name == self.event:
            self.seen += 1
            if self.seen == self.nth:
                proc.remove_process_listener(self)

    def on_process_running(self, process: Any) -> None:
        self._event('running', process)

    def on_process_waiting(self, process: Any) -> None:
        self._event('waiting', process)

    def on_process_paused(self, process: Any) -> None:
        self._event('paused', process)

    def on_process_played(self, process: Any) -> None:
        self._event('played', process)

    def on_output_emitted(self, process: Any, output_port: str, value: Any, dynamic: bool) -> None:
        self._event('output_emitted', process)

    def on_process_finished(self, process: Any, outputs: Any) -> None:
        self._event('finished', process)

    def on_process_excepted(self, process: Any, reason: str) -> None:
        self._event('excepted', process)

    def on_process_killed(self, process: Any, msg: Any) -> None:
        self._event('killed', process)


def fut_status(obj: Any) -> Any:
    """Classify a value returned by a control call (bool or future) at the time of the call."""
    if isinstance(obj, asyncio.Future):
        if not obj.done():
            return 'pending'
        if obj.cancelled():
            return 'cancelled'
        exc = obj.exception()
        if exc is not None:
            return ('exception', type(exc).__name__)
        return ('result', obj.result())
    return ('value', obj)


class World:
    """Everything that exists during one execution."""

    def __init__(self, chooser: Chooser, cfg: Config, unit: Any, oracle: Any) -> None:
        self.chooser = chooser
        self.cfg = cfg
        self.unit = unit
        self.oracle = oracle
        self.program, self.script = unit[0], unit[1]
        self.loop = VLoop(horizon=cfg.horizon)
        self.result = ExecResult()
        self.proc: Any = None
        self.task: Any = None
        self.entered: List[Tuple[Any, Any]] = []  # (from label, to label) seen by the ENTERED callback
        self.trace: List[tuple] = []
        self.calls: List[dict] = []
        self.gates: Dict[int, asyncio.Future] = {}
        self.gate_order: List[int] = []
        self.raised: List[BaseException] = []  # exceptions raised by generated user code, in order
        self.cleanups = 0
        self.listener: Optional[ScriptedListener] = None
        self.n_choice = 0
        self.closing_used = 0
        self.capped = False
        self.terminated_at: Optional[int] = None
        self.ops_issued = 0
        self.stuck = False
        self.ended = False
        self.others: List[Any] = []
        self.n_entering = 0
        self.pre_pause_status: Any = None
        self.ops_in_slot = 0
        self.burst_open = False

    # ---- hooks used by generated programs -------------------------------------------------
    def attach(self, proc: Any) -> None:
        if self.proc is not None:
            self.attach_other(proc)
            return
        self.proc = proc
        proc.add_state_event_callback(state_machine.StateEventHook.ENTERED_STATE, self._entered)
        proc.add_state_event_callback(state_machine.StateEventHook.ENTERING_STATE, self._entering)

    def ctor_kwargs(self) -> Dict[str, Any]:
        return {}

    def attach_other(self, proc: Any) -> None:
        self.others.append(proc)

    def _entering(self, sm: Any, hook: Any, state: Any) -> None:
        self.n_entering += 1
        self.oracle_hook('entering', state)

    def _entered(self, sm: Any, hook: Any, from_state: Any) -> None:
        frm = from_state.LABEL if from_state is not None else None
        self.entered.append((frm, sm.state))
        self.oracle_hook('entered', from_state)

    def oracle_hook(self, what: str, arg: Any) -> None:
        fn = getattr(self.oracle, 'on_' + what, None)
        if fn is not None:
            fn(self, arg)

    def record(self, proc: Any, name: str, args: tuple, kwargs: dict, phase: str) -> None:
        rec = (name, tuple(args), tuple(sorted(kwargs.items())), phase, proc.paused, proc.status,
               plumpy.Process.current() is proc, proc.state)
        self.trace.append(rec)
        if phase == 'enter':
            proc._trace.append((name, tuple(args), tuple(sorted(kwargs.items()))))

    def gate(self, proc: Any, idx: int) -> asyncio.Future:
        fut = self.loop.create_future()
        self.gates[idx] = fut
        self.gate_order.append(idx)
        return fut

    def logged_call(self, proc: Any, op: str, args: tuple, origin: str = 'env') -> dict:
        rec: Dict[str, Any] = {
            'i': self.n_choice, 'op': op, 'args': tuple(args), 'origin': origin, 'state': proc.state,
            'live': not proc.has_terminated(), 'paused': proc.paused, 'ret': None, 'raised': None, 'obj': None,
            'ntrace': len(self.trace), 'nentered': self.n_entering,
        }
        self.calls.append(rec)
        ncalls = len(self.calls)
        if op == 'play' and proc.paused:
            # "the status message present before the pause": what the on_pausing hook saw - or, should that hook run when
            # the pause is requested rather than when it takes effect, the last status the program set itself
            rec['status_expected'] = self.pre_pause_status
            rec['status_alt'] = getattr(self, 'last_user_status', self.pre_pause_status)
        try:
            if op == 'pause':
                ret = proc.pause(*args)
            elif op == 'play':
                ret = proc.play()
            elif op == 'kill':
                ret = proc.kill(*args)
            elif op == 'resume':
                ret = proc.resume(*args)
            elif op == 'fail':
                exc = FailError('fail' if self.cfg.slot_bound is not None else f'fail-{len(self.calls)}')
                rec['exc'] = exc
                ret = proc.fail(exc, None)
            elif op == 'cancel':
                ret = proc.future().cancel()
            elif op == 'unask':
                # whoever made the latest still pending pause / kill request withdraws it by cancelling the action it was
                # handed (what asyncio.wait_for(proc.pause(), timeout) does when the timeout expires)
                target = next((r for r in reversed(self.calls[:-1]) if r['op'] in ('pause', 'kill')
                               and isinstance(r['obj'], asyncio.Future) and not r['obj'].done()), None)
                rec['target'] = None if target is None else target['op']
                ret = None
                if target is not None:
                    ret = target['obj'].cancel()
                    for r in self.calls[:-1]:
                        if r['obj'] is target['obj']:
                            r['withdrawn'] = True
            elif op == 'addl':  # register one more (passive) listener, e.g. from inside a listener callback
                ret = proc.add_process_listener(plumpy.ProcessListener())
            else:  # pragma: no cover
                raise AssertionError(op)
        except Exception as exc:  # noqa: BLE001 - what the caller of the control method would see
            rec['raised'] = exc
            rec['state_after'] = proc.state
            rec['nested'] = [c['op'] for c in self.calls[ncalls:]]
            return rec
        rec['nested'] = [c['op'] for c in self.calls[ncalls:]]
        rec['obj'] = ret
        rec['ret'] = fut_status(ret)
        rec['state_after'] = proc.state
        rec['paused_after'] = proc.paused
        rec['status_after'] = proc.status
        return rec

    # ---- driver ------------------------------------------------------------------------------
    def violate(self, clause: str, features: Optional[dict] = None, detail: Any = None) -> None:
        self.result.violations.append({'clause': clause, 'features': features or {}, 'detail': detail})

    def live(self) -> bool:
        return self.proc is not None and not self.proc.has_terminated()

    def pending_gates(self) -> List[int]:
        return [i for i in self.gate_order if not self.gates[i].done()]

    def options(self) -> List[Tuple[Any, str, Callable[[], None]]]:
        opts: List[Tuple[Any, str, Callable[[], None]]] = []
        loop = self.loop
        proc = self.proc
        ready = loop.has_ready()
        live = self.live()
        post = self.cfg.ops_when == 'always' and not live
        if ready:
            opts.append((('tick',), '', loop.tick))
        elif live and self.closing_used < self.cfg.max_closing:
            closing = self._closing_option()
            if closing is not None:
                opts.append(closing)
            elif self.ops_left():
                # quiescent and live with nothing to close: the default is to stop here, deviations may still act
                opts.append((('end',), '', self._end))
        elif post:
            opts.append((('end',), '', self._end))
        if not opts:
            return opts
        if self.cfg.slot_bound is not None and self.ops_in_slot >= self.cfg.slot_bound:
            return opts
        if self.cfg.burst:
            if not ready:
                self.burst_open = True
            if not self.burst_open:
                return opts
        if live or post:
            for op in self.cfg.alphabet:
                if op[0] == 'resume' and proc.state != ProcessState.WAITING and not post:
                    continue
                cost = self.cfg.cost_of(op) if self.cfg.cost_of is not None else self.cfg.op_cost
                opts.append((op, cost, self._op_thunk(op)))
        if live:
            if self.cfg.early_gates:
                first_default = opts[0][0]
                for g in self.pending_gates():
                    if first_default == ('gate', g):
                        continue
                    opts.append((('gate', g), self.cfg.gate_cost, self._gate_thunk(g)))
        return opts

    def _closing_option(self) -> Optional[Tuple[Any, str, Callable[[], None]]]:
        proc = self.proc
        closing = self.cfg.closing
        if 'gates' in closing:
            pending = self.pending_gates()
            if pending:
                return (('gate', pending[0]), '', self._closing(self._gate_thunk(pending[0])))
        if 'play' in closing and proc.paused:
            return (('play',), '', self._closing(self._op_thunk(('play',), origin='closing')))
        if 'play_if_asked' in closing and proc.paused and self.pause_stands():
            # the closing play only answers a pause that somebody asked for: a process that reports paused although the last
            # request was a play is not rescued
            return (('play',), '', self._closing(self._op_thunk(('play',), origin='closing')))
        if 'resume_if_none' in closing and proc.state == ProcessState.WAITING and not any(
                r['op'] == 'resume' and r['raised'] is None and r['state'] == ProcessState.WAITING
                and r['nentered'] == self.n_entering for r in self.calls):
            op = ('resume',) + tuple(self.cfg.resume_default)
            return (op, '', self._closing(self._op_thunk(op, origin='closing')))
        if 'resume' in closing and proc.state == ProcessState.WAITING:
            op = ('resume',) + tuple(self.cfg.resume_default)
            return (op, '', self._closing(self._op_thunk(op, origin='closing')))
        return None

    def _end(self) -> None:
        self.ended = True

    def pause_stands(self) -> bool:
        """The last accepted request among pause / play is a pause."""
        for rec in reversed(self.calls):
            if rec['raised'] is not None:
                continue
            if rec['op'] == 'pause' and rec['live']:
                return True
            if rec['op'] == 'play':
                return False
        return False

    def ops_left(self) -> bool:
        return bool(self.cfg.alphabet)

    def _closing(self, thunk: Callable[[], None]) -> Callable[[], None]:
        def run() -> None:
            self.closing_used += 1
            thunk()

        return run

    def _op_thunk(self, op: tuple, origin: str = 'env') -> Callable[[], None]:
        def run() -> None:
            if origin == 'env':
                self.ops_issued += 1
            self.logged_call(self.proc, op[0], op[1:], origin=origin)

        return run

    def _gate_thunk(self, g: int) -> Callable[[], None]:
        def run() -> None:
            self.gates[g].set_result(f'g{g}')

        return run

    def step(self) -> bool:
        opts = self.options()
        if not opts:
            return False
        keys = getattr(self.chooser, 'keys', None)
        if keys is not None:
            from . import statekey
            keys.append(statekey.world_key(self))
        c = self.chooser.choose([(label, cost) for label, cost, _ in opts])
        self.n_choice += 1
        self.result.transitions += 1
        self.ops_in_slot = 0 if opts[c][0] == ('tick',) else self.ops_in_slot + 1
        if opts[c][0] == ('tick',):
            self.burst_open = False
        opts[c][2]()
        if self.ended:
            return False
        self.sample()
        return True

    def sample(self) -> None:
        proc = self.proc
        if self.terminated_at is None and proc.has_terminated():
            self.terminated_at = self.n_choice
        self.result.states.add((proc.state, proc.paused, proc.status, len(self.trace), self.loop.ready_count()))
        self.oracle.sample(self)

    def drain(self, limit: int = 500) -> None:
        n = 0
        while n < limit and self.loop.tick():
            n += 1
            self.result.transitions += 1
            self.sample()

    def call(self, op: str, *args: Any, origin: str = 'probe') -> dict:
        rec = self.logged_call(self.proc, op, args, origin=origin)
        self.sample()
        return rec

    def contexts(self) -> List[dict]:
        gc.collect(0)
        return list(self.loop.contexts)


def make_runner(cfg_for: Callable[[Any], Config], oracle_factory: Callable[[Any], Any], base: type = plumpy.Process,
                cls_for: Optional[Callable[[Any], type]] = None,
                world_cls: Optional[type] = None) -> Callable[[Any], Callable[[Chooser], ExecResult]]:
    """Returns ``make_run(unit)`` for ``explore_units``.  ``unit`` is ``(program, listener_script)`` unless ``cls_for`` /
    ``world_cls`` say otherwise."""

    def make_run(unit: Any) -> Callable[[Chooser], ExecResult]:
        cfg = cfg_for(unit)
        cls = cls_for(unit) if cls_for is not None else programs.make_class(unit[0], base)
        wcls = world_cls or World

        def run(chooser: Chooser) -> ExecResult:
            oracle = oracle_factory(unit)
            world = wcls(chooser, cfg, unit, oracle)
            loop = world.loop
            loop.install()
            prev_env = programs.ENV
            programs.ENV = world
            try:
                proc = cls(pid='p0', loop=loop, **world.ctor_kwargs())
                world.listener = ScriptedListener(world, world.script)
                for ev, nth, op in world.listener.scripts:
                    if op[0] == 'oneshot':
                        proc.add_process_listener(OneShot(ev, nth))
                proc.add_process_listener(world.listener)
                proc.add_process_listener(world.listener)  # registering a listener is idempotent
                proc.add_cleanup(lambda: setattr(world, 'cleanups', world.cleanups + 1))
                world.task = loop.create_task(proc.step_until_terminated())
                loop.pump = world.step
                try:
                    while world.step():
                        pass
                    world.stuck = world.live()
                    oracle.finish(world)
                except Horizon:
                    world.capped = True
                    world.result.capped = True
                    oracle.finish_capped(world)
            finally:
                programs.ENV = prev_env
                loop.pump = None
                loop.shutdown()
            return world.result

        return run

    return make_run
