# -*- coding: utf-8 -*-
"""Reference model of port namespaces (``ref_ports``, DESIGN.md 2.5) working on plain *descriptions*, not on plumpy objects.

    port := ('port', required, valid_type, default, validator)     default: NODEFAULT | ('value', v) | ('callable', v)
    ns   := ('ns', required, dyn, populate_defaults, validator, entries[, default])
                                                                              dyn: 'static' | 'dynamic' | 'dynamic_int'
                                                                              entries: tuple of (name, port | ns)
                                                                              default (of the namespace itself): as for a
                                                                              port, the value a mapping as tuple of pairs
    validator: None | 'neg' (ports: rejects the value -1) | 'nsbad' (namespaces: rejects a mapping that has the key
    ``bad`` ... see ``ns_validator``)

Written from the statements of C11/C12 and the public docstrings of ports.py.
"""
from __future__ import annotations

from typing import Any, Dict, Optional, Tuple

NODEFAULT = ('nodefault',)
ABSENT = ('absent',)
TYPES = {None: None, 'int': int, 'str': str, 'tuple': tuple}


class Rejected(Exception):
    pass


def port_validator(value: Any, port: Any) -> Optional[str]:
    if value == -1:
        return 'minus one is not accepted'
    return None


def ns_validator(values: Any, port: Any) -> Optional[str]:
    # rejects namespaces in which the entry ``x`` holds the string 'a' (a cross-value rule that needs the parsed mapping)
    if isinstance(values, dict) or hasattr(values, 'get'):
        if values.get('x', None) == 'a':
            return "x must not be 'a'"
    return None


def is_port(e: tuple) -> bool:
    return e[0] == 'port'


def port_required(e: tuple) -> bool:
    # a port with a default is never required
    return e[1] and e[3] == NODEFAULT


def check_type(value: Any, type_name: Optional[str]) -> bool:
    t = TYPES[type_name]
    return t is None or isinstance(value, t)


def ns_default(e: tuple) -> Any:
    return e[6] if len(e) > 6 else NODEFAULT


def pairs_to_dict(value: Any) -> Any:
    if isinstance(value, tuple):
        return {k: pairs_to_dict(v) for k, v in value}
    return value


def parse(ns: tuple, given: Dict[str, Any], verbatim_ns_defaults: bool = False, keep_empty_nopop: bool = False) -> Dict[str, Any]:
    """Complete ``given`` with the declared defaults.  A namespace's own default is itself completed with the defaults of the
    ports inside it, or - ``verbatim_ns_defaults``, the statement does not rank the two kinds of default - taken as it is."""
    out = dict(given)
    for name, e in ns[5]:
        if name in given:
            if not is_port(e):
                if not isinstance(given[name], dict):
                    raise Rejected(f'{name} is a namespace, its value must be a mapping')
                if keep_empty_nopop and not e[3] and given[name] == {}:
                    out[name] = {}  # (reading: "left out unless supplied" - an empty mapping supplies nothing)
                else:
                    out[name] = parse(e, given[name], verbatim_ns_defaults, keep_empty_nopop)
            continue
        if is_port(e):
            if e[3] != NODEFAULT:
                out[name] = e[3][1]
        else:
            if not e[3]:  # populate_defaults is False and nothing was supplied
                continue
            if ns_default(e) != NODEFAULT:  # the namespace's own default, itself completed with the defaults inside
                default = pairs_to_dict(ns_default(e)[1])
                out[name] = default if verbatim_ns_defaults else parse(e, default, verbatim_ns_defaults, keep_empty_nopop)
            elif e[5]:  # a namespace with ports is considered recursively
                out[name] = parse(e, {}, verbatim_ns_defaults, keep_empty_nopop)
    return out


def validate(ns: tuple, parsed: Dict[str, Any], raw: Any = None, strict: bool = False, skip_absent: bool = False,
             require_ns: bool = False, top: bool = True) -> None:
    """Raises Rejected if the (completed) mapping does not conform.  ``raw`` is what the caller gave for this namespace
    (ABSENT if nothing).  An optional namespace that got nothing is not looked into; ``strict`` selects the reading in
    which an *empty mapping given explicitly* is something (and the required ports inside are then missing), the default
    is the reading in which it is nothing."""
    if require_ns and not top and ns[1] and not ns[3] and raw is ABSENT:
        raise Rejected('a required namespace that is not populated with defaults was not supplied')
    if not parsed and not ns[1] and not (strict and raw is not ABSENT and raw is not None):
        return  # an optional namespace that got nothing
    if skip_absent and not ns[1] and raw is ABSENT:
        return  # (third reading) an optional namespace the caller gave nothing for, whatever the defaults put there
    rest = dict(parsed)
    for name, e in ns[5]:
        present = name in rest
        value = rest.pop(name, None)
        if is_port(e):
            if not present:
                if port_required(e):
                    raise Rejected(f'required {name} missing')
                continue
            if not check_type(value, e[2]):
                raise Rejected(f'{name} has the wrong type')
            if e[4] == 'neg' and port_validator(value, None) is not None:
                raise Rejected(f'{name} rejected by its validator')
        else:
            sub_raw = raw.get(name, ABSENT) if isinstance(raw, dict) else ABSENT
            validate(e, value if present else {}, sub_raw, strict, skip_absent, require_ns, False)
    if rest:
        if ns[2] == 'static':
            raise Rejected(f'undeclared {sorted(rest)}')
        if ns[2] == 'dynamic_int':
            check_dynamic(rest)
    if ns[4] == 'nsbad' and ns_validator(parsed, None) is not None:
        raise Rejected('namespace validator')


def check_dynamic(values: Any) -> None:
    if isinstance(values, dict):
        for v in values.values():
            check_dynamic(v)
    elif not isinstance(values, int):
        raise Rejected('dynamic value of the wrong type')


def accept(ns: tuple, given: Dict[str, Any], strict: bool = False, verbatim_ns_defaults: bool = False,
           skip_absent: bool = False, require_ns: bool = False, keep_empty_nopop: bool = False) -> Dict[str, Any]:
    parsed = parse(ns, given, verbatim_ns_defaults, keep_empty_nopop)
    validate(ns, parsed, given, strict, skip_absent, require_ns)
    return parsed


def prune(value: Any) -> Any:
    """Drop empty mappings (the statement does not say whether an empty declared namespace shows up)."""
    if isinstance(value, dict):
        out = {}
        for k, v in value.items():
            pv = prune(v)
            if isinstance(pv, dict) and not pv:
                continue
            out[k] = pv
        return out
    return value
