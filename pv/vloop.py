# -*- coding: utf-8 -*-
"""VLoop: a deterministic asyncio event loop that is stepped by hand, one handle at a time.

Nothing here knows about plumpy.  The loop never blocks, never selects and has a virtual clock;
``tick()`` runs exactly one ready handle (FIFO, as every real asyncio loop does).  ``run_until_complete``
is re-entrant (needed by ``Process.execute()`` called from inside a step): it pumps the loop through
``self.pump`` (installed by the driver so that nested executions remain under the chooser's control).
"""
from __future__ import annotations

import asyncio
import heapq
from asyncio import events, tasks
from typing import Any, Callable, List, Optional


class Horizon(Exception):
    """The execution exceeded the tick horizon (treated as a capped/livelocked execution)."""


class NestedDeadlock(RuntimeError):
    """A nested run_until_complete cannot make progress."""


class VLoop(asyncio.BaseEventLoop):
    _installed = False

    def __init__(self, horizon: int = 4000) -> None:
        super().__init__()
        self._vtime = 0.0
        self.contexts: List[dict] = []  # exception contexts reported to the loop
        self.ticks = 0
        self.horizon = horizon
        self.pump: Optional[Callable[[], bool]] = None  # nested pump installed by the driver
        self.nest_depth = 0
        self.set_exception_handler(self._collect)

    # -- plumbing BaseEventLoop needs ------------------------------------------------------
    def time(self) -> float:
        return self._vtime

    def _write_to_self(self) -> None:  # call_soon_threadsafe wake-up: nothing to wake
        pass

    def _process_events(self, event_list: Any) -> None:
        pass

    def _collect(self, loop: Any, context: dict) -> None:
        self.contexts.append(context)

    def is_running(self) -> bool:
        return self._installed

    # -- installation ----------------------------------------------------------------------
    def install(self) -> None:
        self._prev_running = events._get_running_loop()
        events._set_running_loop(self)
        self._installed = True
        self._thread_id = __import__('threading').get_ident()

    def uninstall(self) -> None:
        events._set_running_loop(getattr(self, '_prev_running', None))
        self._installed = False
        self._thread_id = None

    # -- stepping --------------------------------------------------------------------------
    def _promote_timer(self) -> None:
        while self._scheduled and self._scheduled[0]._cancelled:
            h = heapq.heappop(self._scheduled)
            h._scheduled = False
        if self._scheduled:
            h = heapq.heappop(self._scheduled)
            h._scheduled = False
            if h._when > self._vtime:
                self._vtime = h._when
            self._ready.append(h)

    def has_ready(self) -> bool:
        for h in self._ready:
            if not h._cancelled:
                return True
        for h in self._scheduled:
            if not h._cancelled:
                return True
        return False

    def ready_count(self) -> int:
        return sum(1 for h in self._ready if not h._cancelled)

    def tick(self) -> bool:
        """Run exactly one non-cancelled handle.  Returns False when there is nothing to run."""
        while True:
            while self._ready:
                h = self._ready.popleft()
                if h._cancelled:
                    continue
                self.ticks += 1
                if self.ticks > self.horizon:
                    raise Horizon()
                # Allow nesting: the task that is current (if any) is set aside while the handle runs.
                cur = tasks._current_tasks.pop(self, None)
                try:
                    h._run()
                finally:
                    if cur is not None:
                        tasks._current_tasks[self] = cur
                    else:
                        tasks._current_tasks.pop(self, None)
                h = None
                return True
            if not self._scheduled:
                return False
            self._promote_timer()
            if not self._ready:
                return False

    def drain(self, limit: int = 100000) -> int:
        n = 0
        while n < limit and self.tick():
            n += 1
        return n

    # -- re-entrant run_until_complete -------------------------------------------------------
    def run_until_complete(self, future: Any) -> Any:
        fut = asyncio.ensure_future(future, loop=self)
        self.nest_depth += 1
        try:
            while not fut.done():
                progressed = self.pump() if self.pump is not None else self.tick()
                if not progressed:
                    raise NestedDeadlock('nested run_until_complete cannot make progress')
        finally:
            self.nest_depth -= 1
        return fut.result()

    def run_forever(self) -> None:  # pragma: no cover
        raise RuntimeError('VLoop is stepped by hand')

    # -- end of execution -------------------------------------------------------------------
    def shutdown(self) -> None:
        """Cancel whatever is still pending, drain, and close, so that nothing leaks to the next execution."""
        try:
            for _ in range(3):
                pending = [t for t in tasks.all_tasks(self) if not t.done()]
                if not pending:
                    break
                for t in pending:
                    t.cancel()
                try:
                    self.horizon = self.ticks + 5000
                    self.drain(5000)
                except BaseException:  # noqa: BLE001 - abandoning, nothing to report
                    pass
            for t in tasks.all_tasks(self):
                if t.done() and not t.cancelled():
                    t.exception()
            self._ready.clear()
            self._scheduled.clear()
        finally:
            if self._installed:
                self.uninstall()
            if not self.is_closed():
                self.close()
