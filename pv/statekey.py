# -*- coding: utf-8 -*-
"""Canonical keys of a world (process + loop + environment) for the stateful closure search (DESIGN.md 2.2).

The key is used **only to prune** (two histories with the same key are assumed to have the same futures); verdicts are
always computed on a concrete execution of the implementation.  A key that is too coarse can therefore lose coverage, it
can never raise an alarm; a key that is too fine only costs time.  This is the one place where private attributes are read:
the walker does not know plumpy's field names, it fingerprints whatever the objects hold (so a refactoring that renames or
adds fields is keyed as well as the original).
"""
from __future__ import annotations

import asyncio
import enum
import functools
import hashlib
import types
from typing import Any, Dict, List, Tuple

SKIP_KEYS = {'_creation_time', '_logger', '__logger', '_loop', '_uuid', '_source_traceback', '_asyncio_future_blocking',
             '_log_traceback', '_log_destroy_pending'}
PRIMS = (bool, int, str, bytes, float, type(None))


def _fut_status(f: Any) -> Any:
    if not f.done():
        return 'pending'
    if f.cancelled():
        return 'cancelled'
    try:
        exc = f.exception()
    except BaseException as e:  # noqa: BLE001
        return ('exception?', type(e).__name__)
    if exc is not None:
        return ('exception', type(exc).__name__, _short(getattr(exc, 'args', ())))
    return ('result', _short(f.result()))


def _short(v: Any) -> str:
    if isinstance(v, PRIMS) or isinstance(v, enum.Enum):
        return repr(v)
    if isinstance(v, (tuple, list)):
        return '[' + ','.join(_short(x) for x in v) + ']'
    if isinstance(v, dict):
        return '{' + ','.join(sorted(f'{_short(k)}:{_short(x)}' for k, x in v.items())) + '}'
    if isinstance(v, asyncio.Future):
        return 'F:' + repr(_fut_status(v))
    return type(v).__name__


def _cbname(cb: Any) -> str:
    if isinstance(cb, functools.partial):
        return 'partial:' + _cbname(cb.func)
    name = getattr(cb, '__qualname__', None) or getattr(cb, '__name__', None) or type(cb).__name__
    return str(name)


def _coro_chain(coro: Any, memo: Dict[int, int], depth: int) -> Any:
    chain: List[Any] = []
    n = 0
    while coro is not None and n < 12:
        n += 1
        frame = getattr(coro, 'cr_frame', None) or getattr(coro, 'gi_frame', None)
        code = getattr(coro, 'cr_code', None) or getattr(coro, 'gi_code', None)
        if code is not None:
            chain.append((code.co_name, frame.f_lasti if frame is not None else -1))
            coro = getattr(coro, 'cr_await', None) if hasattr(coro, 'cr_await') else getattr(coro, 'gi_yieldfrom', None)
            continue
        if isinstance(coro, asyncio.Future):
            chain.append(fp(coro, memo, depth + 1))
        else:
            chain.append(type(coro).__name__)
        break
    return tuple(chain)


def fp(obj: Any, memo: Dict[int, int], depth: int = 0) -> Any:
    """Structural fingerprint of an object graph (cycles become back references in traversal order)."""
    if isinstance(obj, PRIMS):
        return obj if not isinstance(obj, float) else repr(obj)
    if isinstance(obj, enum.Enum):
        return str(obj)
    if isinstance(obj, type):
        return ('type', obj.__qualname__)
    oid = id(obj)
    if oid in memo:
        return ('ref', memo[oid])
    if depth > 14:
        return ('deep', type(obj).__name__)
    mod = type(obj).__module__ or ''
    if isinstance(obj, (list, tuple)):
        return (type(obj).__name__,) + tuple(fp(x, memo, depth + 1) for x in obj)
    if isinstance(obj, dict) or _is_mapping(obj):
        items = []
        for k in obj.keys():
            items.append((repr(k) if isinstance(k, PRIMS) or isinstance(k, enum.Enum) else _short(k), k))
        items.sort(key=lambda kv: kv[0])
        return ('map', type(obj).__name__) + tuple((ks, fp(obj[k], memo, depth + 1)) for ks, k in items)
    if isinstance(obj, (set, frozenset)):
        return ('set',) + tuple(sorted(_short(x) for x in obj))
    memo[oid] = len(memo)
    if isinstance(obj, asyncio.Task):
        if obj.done():
            return ('task', _fut_status(obj))
        return ('task', 'pending', _coro_chain(obj.get_coro(), memo, depth), bool(getattr(obj, '_must_cancel', False)))
    if isinstance(obj, asyncio.Future):
        cbs = tuple(sorted({_cbname(c[0] if isinstance(c, tuple) else c) for c in (getattr(obj, '_callbacks', None) or ())}))
        extra: Any = ()
        d = getattr(obj, '__dict__', None)
        if d:
            extra = _dict_fp(d, memo, depth)
        return ('fut', type(obj).__name__, _fut_status(obj), cbs, extra)
    if isinstance(obj, BaseException):
        return ('exc', type(obj).__name__, _short(obj.args))
    if isinstance(obj, functools.partial):
        return ('partial', fp(obj.func, memo, depth + 1), fp(obj.args, memo, depth + 1), fp(obj.keywords, memo, depth + 1))
    if isinstance(obj, types.MethodType):
        return ('meth', _cbname(obj.__func__), fp(obj.__self__, memo, depth + 1))
    if isinstance(obj, (types.FunctionType, types.BuiltinFunctionType, types.BuiltinMethodType)):
        slf = getattr(obj, '__self__', None)
        if slf is not None and isinstance(slf, asyncio.Future):
            return ('bmeth', _cbname(obj), fp(slf, memo, depth + 1))
        return ('fn', _cbname(obj))
    if isinstance(obj, types.CoroutineType):
        return ('coro', _coro_chain(obj, memo, depth))
    if isinstance(obj, asyncio.AbstractEventLoop):
        return ('env', type(obj).__name__)
    if (mod.startswith('pv.') or mod == 'pv') and not any((c.__module__ or '').startswith('plumpy') for c in type(obj).__mro__):
        return ('env', type(obj).__name__)
    if mod.startswith(('logging', 'threading', '_thread', 'contextvars')):
        return ('sys', type(obj).__name__)
    d = getattr(obj, '__dict__', None)
    if d is not None:
        return ('obj', type(obj).__qualname__, _dict_fp(d, memo, depth))
    slots = getattr(type(obj), '__slots__', None)
    if slots:
        return ('obj', type(obj).__qualname__, tuple((s, fp(getattr(obj, s, None), memo, depth + 1)) for s in sorted(slots)))
    slf = getattr(obj, '__self__', None)  # e.g. TaskStepMethWrapper
    if slf is not None:
        return ('wrap', type(obj).__name__, fp(slf, memo, depth + 1))
    return ('opaque', type(obj).__name__)


def _is_mapping(obj: Any) -> bool:
    try:
        from collections.abc import Mapping
        return isinstance(obj, Mapping)
    except Exception:  # noqa: BLE001
        return False


def _dict_fp(d: Dict[str, Any], memo: Dict[int, int], depth: int) -> Any:
    return tuple((k, fp(d[k], memo, depth + 1)) for k in sorted(d) if k not in SKIP_KEYS)


def handles_fp(loop: Any, memo: Dict[int, int]) -> Any:
    out = []
    for h in list(loop._ready) + sorted(loop._scheduled, key=lambda x: x._when):
        if h._cancelled:
            continue
        out.append((fp(h._callback, memo, 1), tuple(fp(a, memo, 1) for a in (h._args or ()))))
    return tuple(out)


def digest(obj: Any) -> str:
    return hashlib.sha1(repr(obj).encode()).hexdigest()


def obligations(world: Any) -> Any:
    """What the oracles remember of the history, kept as small as they allow: the earliest standing (accepted, not withdrawn)
    kill-like request and whether one was withdrawn, whether a pause was asked after the last play, the first resume accepted
    in each wait, and the states of the futures that were handed to callers (as a set; pending ones are counted per request
    kind)."""
    standing = None
    withdrawn = False
    texts = set()
    first_resume: Dict[Any, Any] = {}
    pause_after_play = False
    done = set()
    pending: Dict[int, str] = {}
    for r in world.calls:
        obj = r.get('obj')
        ok = r.get('raised') is None
        if isinstance(obj, asyncio.Future):
            if obj.done():
                done.add((r['op'], repr(_fut_status(obj))))
            else:
                pending[id(obj)] = r['op']
        elif ok:
            done.add((r['op'], repr(r.get('ret'))))
        if r['op'] in ('kill', 'cancel') and r['live'] and ok:
            if r.get('withdrawn'):
                withdrawn = True
            elif not (r['op'] == 'cancel' and r.get('ret') != ('value', True)):
                cand = (r['ntrace'], r['op'], r['origin'].split(':')[0])
                standing = cand if standing is None or cand < standing else standing
            texts.update(a for a in r['args'] if isinstance(a, str))
        elif r['op'] == 'resume' and ok and r['live']:
            first_resume.setdefault(r['nentered'], r['args'])
        elif r['op'] == 'pause' and ok and r['live']:
            pause_after_play = True
        elif r['op'] == 'play' and ok:
            pause_after_play = False
    return (standing, withdrawn, tuple(sorted(texts)), tuple(sorted(first_resume.items(), key=repr)), pause_after_play,
            tuple(sorted(done)), tuple(sorted(pending.values())), repr(getattr(world, 'pre_pause_status', None)))


def world_key(world: Any) -> str:
    memo: Dict[int, int] = {}
    proc = world.proc
    parts: List[Any] = []
    parts.append(fp(proc, memo))
    parts.append(('stepping-task', fp(world.task, memo)))
    parts.append(('ready', handles_fp(world.loop, memo)))
    parts.append(('gates', tuple((i, _fut_status(world.gates[i])) for i in world.gate_order)))
    parts.append(('trace', tuple(world.trace)))
    parts.append(('entered', tuple((str(a), str(b)) for a, b in world.entered)))
    parts.append(('raised', len(world.raised), world.cleanups, world.ops_in_slot, world.closing_used > 0))
    lis = world.listener
    if lis is not None:
        term = tuple(e for e in lis.log if e[0] in ('finished', 'excepted', 'killed'))
        parts.append(('listener', term, tuple(sorted((k, min(v, 3)) for k, v in lis.counts.items())) if lis.scripts else tuple(sorted(set(e[0] for e in lis.log)))))
    parts.append(('oblig', obligations(world)))
    parts.append(('ctx', len(world.loop.contexts)))
    for other in getattr(world, 'others', ()):
        parts.append(('other', fp(other, memo)))
    return digest(parts)
