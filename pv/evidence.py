# -*- coding: utf-8 -*-
"""Evidence files: written by every run from what the run measured (schema /root/.vp/EVIDENCE.schema.json)."""
from __future__ import annotations

import json
import os
from typing import Any, Dict

ROOT = os.path.dirname(os.path.dirname(os.path.abspath(__file__)))


def write(prop_id: str, tier: str, seed: int, level: str, coverage: Dict[str, Any], assumptions: list, wall_s: float,
          violations: int, extra: Dict[str, Any] | None = None) -> str:
    os.makedirs(os.path.join(ROOT, 'evidence'), exist_ok=True)
    path = os.path.join(ROOT, 'evidence', f'{prop_id}.json')
    doc: Dict[str, Any] = {
        'property_id': prop_id, 'tier': tier, 'seed': seed, 'level': level, 'coverage': coverage,
        'assumptions': assumptions, 'wall_s': round(wall_s, 2), 'violations': violations,
    }
    if extra:
        doc.update(extra)
    tmp = path + '.tmp'
    with open(tmp, 'w') as handle:
        json.dump(doc, handle, indent=1, default=repr, sort_keys=True)
        handle.write('\n')
    os.replace(tmp, path)
    return path
